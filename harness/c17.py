"""C17 -- class diagrams mirror the Python classes and derived views leave them intact.

Tie: (T) translator/t_fieldkind.py regenerates Gen/FieldKind.v from wrapped_field.py / utils.py on every run and is
validated by running the generated Gallina predicates and the real WrappedField predicates on every annotation of the
grammar up to depth 2; (H) generated dataclass programs are written to scratch modules under work/C17/, loaded in a
fresh process each, and the real ClassDiagram (nodes, edges, per-field classification, snapshots of every diagram object
after every read-only operation) is compared with the Coq model (Diagram/Diagram.v, SubDiagram.v), the Coq Spec
(Diagram/DiagramSpec.v, FieldKindSpec.v) and an independent typing.get_type_hints based reading done here.

`python -m harness.c17 --serve <dir> <case ids...>` is the worker: it imports krrood once and forks one child per case.
"""
from __future__ import annotations

import json
import os
import subprocess
import sys
import time
from concurrent.futures import ThreadPoolExecutor
from pathlib import Path
from typing import Any, Dict, List, Optional, Tuple

PROP = "C17"
CPU_LIMIT_S = 10
BUILTINS = ["int", "float", "str", "bool", "datetime", "None"]
CKINDS = ["List", "Set", "Tuple", "Sequence"]
CKIND_COQ = ["KList", "KSet", "KTuple", "KSeq"]
BUILTIN_COQ = ["BInt", "BFloat", "BStr", "BBool", "BDatetime", "BNoneType"]
ORIGINS = ["None", "Union", "Optional", "UnionType", "List", "Set", "Tuple", "Sequence", "Type", "Dict"]
ORIGIN_COQ = ["ONone", "OUnion", "OOptional", "OUnionType", "OList", "OSet", "OTuple", "OSeq", "OType", "ODict"]
EXN = {"TypeError": 1, "ValueError": 2, "IndexError": 3, "AttributeError": 4, "MissingContainedTypeOfContainer": 5,
       "NameError": 6, "StopIteration": 7, "TypeResolutionError": 8}
PRED_NAMES = ["is_builtin_type", "is_optional", "is_enum", "is_container", "is_one_to_one_relationship",
              "is_one_to_many_relationship", "is_type_type", "is_iterable", "type_endpoint",
              "is_collection_of_builtins", "is_role_taker", "container_type", "contained_type"]

# =====================================================================================================
# annotations:  ("B", i) ("C", name) ("E", name) ("O", t) ("K", k, t) ("T", t) ("F", name)
#               ("OL", t) ("P", t) ("D", k, v) ("Bare", o)        (lists after a JSON round trip)
# =====================================================================================================


def tt(t):
    return tuple(tt(x) if isinstance(x, (list, tuple)) else x for x in t)


def ty_has(t, tag) -> bool:
    """does the annotation contain a constructor `tag` ("F" also stands for "FL": both are written as names)"""
    return t[0] == tag or (tag == "F" and t[0] == "FL") or any(isinstance(x, tuple) and ty_has(x, tag) for x in t[1:])


def ty_map_leaf(t, f):
    if t[0] in ("B", "C", "E", "F", "FL", "Bare"):
        return f(t)
    return tuple(ty_map_leaf(x, f) if isinstance(x, tuple) else x for x in t)


def ty_py(t, quote_leaf: bool) -> str:
    k = t[0]
    if k == "B":
        return BUILTINS[t[1]]
    if k in ("C", "E"):
        return t[1]
    if k in ("F", "FL"):
        return f'"{t[1]}"' if quote_leaf else t[1]
    if k == "O":
        return f"Optional[{ty_py(t[1], quote_leaf)}]"
    if k == "OL":
        return f"Union[None, {ty_py(t[1], quote_leaf)}]"
    if k == "P":
        return f"{ty_py(t[1], quote_leaf)} | None"
    if k == "K":
        inner = ty_py(t[2], quote_leaf)
        return f"Tuple[{inner}, ...]" if t[1] == 2 else f"{CKINDS[t[1]]}[{inner}]"
    if k == "T":
        return f"Type[{ty_py(t[1], quote_leaf)}]"
    if k == "D":
        return f"Dict[{ty_py(t[1], quote_leaf)}, {ty_py(t[2], quote_leaf)}]"
    if k == "Bare":
        return ORIGINS[t[1]]
    if k == "U":
        a, b = ty_py(t[2], quote_leaf), ty_py(t[3], quote_leaf)
        return f"{a} | {b}" if t[1] else f"Union[{a}, {b}]"
    raise ValueError(t)


def ty_coq(t, ids: Dict[str, int]) -> str:
    k = t[0]
    if k == "B":
        return f"(Builtin {BUILTIN_COQ[t[1]]})"
    if k == "C":
        return f"(Cls {ids[t[1]]})"
    if k == "E":
        return f"(Enum {ids[t[1]]})"
    if k == "F":
        return f"(Fwd {ids[t[1]]})"
    if k == "FL":
        return f"(FwdLocal {ids[t[1]]})"
    if k == "O":
        return f"(Optional {ty_coq(t[1], ids)})"
    if k == "OL":
        return f"(OptionalL {ty_coq(t[1], ids)})"
    if k == "P":
        return f"(Pep604 {ty_coq(t[1], ids)})"
    if k == "K":
        return f"(Cont {CKIND_COQ[t[1]]} {ty_coq(t[2], ids)})"
    if k == "T":
        return f"(TypeOf {ty_coq(t[1], ids)})"
    if k == "D":
        return f"(DictOf {ty_coq(t[1], ids)} {ty_coq(t[2], ids)})"
    if k == "Bare":
        return f"(Bare {ORIGIN_COQ[t[1]]})"
    if k == "U":
        return f"(UnionPair {cb(t[1])} {ty_coq(t[2], ids)} {ty_coq(t[3], ids)})"
    raise ValueError(t)


def ty_to_sx(t, ids) -> Any:
    """the same encoding as FieldKindSpec.ty_sx"""
    k = t[0]
    if k == "B":
        return [0, t[1]]
    if k == "C":
        return [1, ids[t[1]]]
    if k == "E":
        return [2, ids[t[1]]]
    if k == "O":
        return [3, ty_to_sx(t[1], ids)]
    if k == "K":
        return [4, t[1], ty_to_sx(t[2], ids)]
    if k == "T":
        return [5, ty_to_sx(t[1], ids)]
    if k == "F":
        return [6, ids[t[1]]]
    if k == "OL":
        return [7, ty_to_sx(t[1], ids)]
    if k == "P":
        return [8, ty_to_sx(t[1], ids)]
    if k == "D":
        return [9, ty_to_sx(t[1], ids), ty_to_sx(t[2], ids)]
    if k == "Bare":
        return [10, t[1]]
    if k == "Ellip":
        return [11]
    if k == "FL":
        return [12, ids[t[1]]]
    if k == "U":
        return [13, int(bool(t[1])), ty_to_sx(t[2], ids), ty_to_sx(t[3], ids)]
    return [99]


def ty_resolve(t, kinds: Dict[str, str]):
    """harness-side resolution of forward references (kinds: class name -> 'enum' | 'dataclass' | 'plain')"""
    if t[0] in ("F", "FL"):
        return ("E", t[1]) if kinds[t[1]] == "enum" else ("C", t[1])
    return tuple(ty_resolve(x, kinds) if isinstance(x, tuple) else x for x in t)


def is_base(t) -> bool:
    return (t[0] == "B" and t[1] != 5) or t[0] in ("C", "E")


def wf_ty(t) -> bool:
    if t[0] in ("O", "OL", "P", "T"):
        return is_base(t[1])
    if t[0] == "K":
        return is_base(t[2])
    return is_base(t)


# =====================================================================================================
# worker side (runs with krrood importable)
# =====================================================================================================


def py_to_ty(o, env) -> tuple:
    """independent reading of a typing object into the grammar (uses typing.get_origin / get_args only)"""
    import collections.abc
    import datetime
    import types
    import typing
    none = type(None)
    if o is none or o is None:
        return ("B", 5)
    for i, b in enumerate((int, float, str, bool, datetime.datetime)):
        if o is b:
            return ("B", i)
    if o is Ellipsis:
        return ("Ellip",)
    if isinstance(o, type) and o in env:
        return env[o]
    org, args = typing.get_origin(o), typing.get_args(o)
    table = {list: 0, set: 1, tuple: 2, collections.abc.Sequence: 3}
    if org is typing.Union or org is types.UnionType:
        if len(args) == 2 and args[1] is none:
            return ("P" if org is types.UnionType else "O", py_to_ty(args[0], env))
        if len(args) == 2 and args[0] is none:
            return ("X", "pep604-none-first") if org is types.UnionType else ("OL", py_to_ty(args[1], env))
        if len(args) == 2:
            return ("U", 1 if org is types.UnionType else 0, py_to_ty(args[0], env), py_to_ty(args[1], env))
        return ("X", "union")
    if org in table:
        if not args:
            return ("Bare", {0: 4, 1: 5, 2: 6, 3: 7}[table[org]])
        if org is tuple and not (len(args) == 2 and args[1] is Ellipsis):
            return ("X", "tuple")
        return ("K", table[org], py_to_ty(args[0], env))
    if org is type:
        return ("T", py_to_ty(args[0], env)) if args else ("Bare", 8)
    if org is dict:
        return ("D", py_to_ty(args[0], env), py_to_ty(args[1], env)) if args else ("Bare", 9)
    return ("X", repr(o))


def _exn_code(e) -> int:
    return EXN.get(type(e).__name__, 99)


def _pred_values(wf, env, ids) -> list:
    """the thirteen predicates of one WrappedField in the encoding of Diagram.preds_sx"""
    out = []
    for p in PRED_NAMES:
        try:
            v = getattr(wf, p)
        except Exception as e:  # noqa
            out.append([-1, _exn_code(e)])
            continue
        if p in ("type_endpoint", "contained_type"):
            out.append(ty_to_sx(py_to_ty(v, env), ids))
        elif p == "container_type":
            import collections.abc
            out.append({None: 0, list: 4, set: 5, tuple: 6, collections.abc.Sequence: 7, type: 8, dict: 9}.get(v, 99))
        else:
            out.append(1 if v is True else 0 if v is False else 98)
    return out


_OBJNAME: Dict[Any, str] = {}


def _cname(cls) -> str:
    return _OBJNAME.get(cls, cls.__name__)


def _snapshot(cd, ids) -> list:
    from krrood.class_diagrams.class_diagram import Association, Inheritance
    nodes = [ids[_cname(w.clazz)] for w in cd.wrapped_classes]
    edges = []
    for e in cd._dependency_graph.edges():
        if isinstance(e, Inheritance):
            edges.append([0, ids[_cname(e.source.clazz)], ids[_cname(e.target.clazz)], 1])
        elif isinstance(e, Association):
            edges.append([1, ids[_cname(e.source.clazz)], ids[_cname(e.target.clazz)], ids[e.field.field.name]])
        else:
            edges.append([9, 0, 0, 0])
    return [nodes, sorted(edges)]


def _plain_hints(c, by_name) -> dict:
    """typing.get_type_hints in the class's own module; a name the module lacks (TYPE_CHECKING-only import, local class) is
    supplied from the program's classes by its Python name, when only one class has that name"""
    import typing
    by_py: Dict[str, list] = {}
    for obj in by_name.values():
        by_py.setdefault(obj.__name__, [])
        if obj not in by_py[obj.__name__]:
            by_py[obj.__name__].append(obj)
    extra: Dict[str, Any] = {}
    for _ in range(50):
        try:
            return typing.get_type_hints(c, localns=extra or None)
        except NameError as e:
            cands = by_py.get(e.name, [])
            if e.name in extra or len(cands) != 1:
                raise
            extra[e.name] = cands[0]
    raise RuntimeError("too many missing names")


def _independent_reading(classes, by_name, env, ids) -> list:
    """Statement-level reading: typing.get_type_hints + dataclasses.fields + __bases__, nothing from krrood."""
    import dataclasses
    import typing
    nodes = []
    for c in classes:
        if c not in nodes:
            nodes.append(c)
    edges = []
    for c in nodes:
        for b in c.__bases__:
            if b in nodes:
                edges.append([0, ids[_cname(b)], ids[_cname(c)], 1])
    for c in nodes:
        if not dataclasses.is_dataclass(c):
            continue
        hints = _plain_hints(c, by_name)
        for f in dataclasses.fields(c):
            if f.name.startswith("_"):
                continue
            t = py_to_ty(hints[f.name], env)
            if t[0] in ("O", "OL", "P", "T"):
                t = t[1]
            elif t[0] == "K":
                t = t[2]
            if t[0] in ("C", "E") and by_name[t[1]] in nodes:
                edges.append([1, ids[_cname(c)], ids[t[1]], ids[f.name]])
    return [[ids[_cname(c)] for c in nodes], sorted(edges)]


def _edge_tuple(e, ids) -> list:
    from krrood.class_diagrams.class_diagram import Association, Inheritance
    if isinstance(e, Inheritance):
        return [0, ids[_cname(e.source.clazz)], ids[_cname(e.target.clazz)], 1]
    if isinstance(e, Association):
        return [1, ids[_cname(e.source.clazz)], ids[_cname(e.target.clazz)], ids[e.field.field.name]]
    return [9, 0, 0, 0]


def _run_query(cd, q, by_name, ids):
    """Run one public read-only query; the answer is encoded like SubDiagram.answer ([] for the uncompared ones)."""
    from krrood.class_diagrams.class_diagram import Association, Inheritance
    k = q[0]
    if k == "nodes":
        return [ids[_cname(w.clazz)] for w in cd.wrapped_classes]
    if k == "associations":
        return sorted(_edge_tuple(e, ids) for e in cd.associations)
    if k == "inheritance":
        return sorted(_edge_tuple(e, ids) for e in cd.inheritance_relations)
    if k == "outedges":
        c = by_name[q[1]]
        return [sorted(_edge_tuple(e, ids) for e in cd.get_out_edges(c)),
                sorted(_edge_tuple(e, ids) for e in cd.get_outgoing_relations(c)),
                sorted(_edge_tuple(e, ids) for e in cd.get_associations_with_condition(c, lambda a: True))]
    if k in ("outnb", "innb"):
        c = by_name[q[1]]
        rel = Association if q[2] else Inheritance
        f = cd.get_outgoing_neighbors_with_relation_type if k == "outnb" else cd.get_incoming_neighbors_with_relation_type
        return sorted({ids[_cname(w.clazz)] for w in f(c, rel)})
    if k == "ancestors":
        anc = cd.all_ancestors(cd.get_wrapped_class(by_name[q[1]]).index)
        pm = cd.parent_map
        nodes = cd._dependency_graph.nodes()
        by_index = {w.index: w for w in nodes}
        direct = sorted({ids[_cname(by_index[p].clazz)] for p in pm.get(cd.get_wrapped_class(by_name[q[1]]).index, set())})
        return [sorted({ids[_cname(by_index[a].clazz)] for a in anc}), direct]
    if k == "assockeys":
        cd.get_assoc_keys_by_source(bool(q[1]))
        return []
    if k == "neighbours":
        cd.get_neighbors_with_relation_type(by_name[q[1]], Association if q[2] else Inheritance)
        return []
    if k == "roletaker":
        c = by_name[q[1]]
        cd.get_role_taker_associations_of_cls(c)
        cd.get_common_role_taker_associations(c, c)
        return []
    if k == "render":
        cd._build_rxnode_tree(add_association_relations=bool(q[1]))
        return []
    raise ValueError(q)


def expected_answer(snap, q, ids):
    """What a query has to answer, read off a graph snapshot [nodes, sorted edges] (harness-side, independent of krrood)."""
    nodes, edges = snap
    k = q[0]
    if k == "nodes":
        return list(nodes)
    if k == "associations":
        return sorted(e for e in edges if e[0] == 1)
    if k == "inheritance":
        return sorted(e for e in edges if e[0] == 0)
    if k == "outedges":
        es = sorted(e for e in edges if e[1] == ids[q[1]])
        return [es, es, [e for e in es if e[0] == 1]]
    if k == "outnb":
        return sorted({e[2] for e in edges if e[1] == ids[q[1]] and e[0] == (1 if q[2] else 0)})
    if k == "innb":
        return sorted({e[1] for e in edges if e[2] == ids[q[1]] and e[0] == (1 if q[2] else 0)})
    if k == "ancestors":   # everything reachable backwards over inheritance edges, and the direct bases
        direct = sorted({e[1] for e in edges if e[0] == 0 and e[2] == ids[q[1]]})
        seen, todo = set(direct), list(direct)
        while todo:
            x = todo.pop()
            for e in edges:
                if e[0] == 0 and e[2] == x and e[1] not in seen:
                    seen.add(e[1])
                    todo.append(e[1])
        return [sorted(seen), direct]
    return []


def run_case(case: dict, case_dir: str) -> dict:
    """Executed in a fresh (forked) process: import the scratch modules and drive the real implementation."""
    import copy
    import importlib
    sys.path.insert(0, case_dir)
    ids = case["ids"]
    out: Dict[str, Any] = {}
    try:
        mods = [importlib.import_module(m["name"]) for m in case["modules"]]
    except Exception as e:  # the generated program is not valid Python / not a valid class hierarchy
        return {"invalid": f"{type(e).__name__}: {e}"}
    by_name, env = {}, {}
    for d in case["decls"]:
        if "module" in d:   # two modules that may both define a class of this __name__ (namesakes)
            by_name[d["name"]] = vars(sys.modules[f"c17_m{d['module'] + 1}"])[d.get("pyname", d["name"])]
            _OBJNAME[by_name[d["name"]]] = d["name"]
            continue
        for m in mods:
            scope = vars(m).get("CLASSES", vars(m))   # classes defined inside a function / nested in a class
            if d["name"] in scope and getattr(scope[d["name"]], "__module__", None) == m.__name__:
                by_name[d["name"]] = scope[d["name"]]
    for n, c in by_name.items():
        kind = next(d["kind"] for d in case["decls"] if d["name"] == n)
        env[c] = ("E", n) if kind == "enum" else ("C", n)
    from krrood.class_diagrams.class_diagram import ClassDiagram, WrappedClass
    if case["kind"] == "classify":
        res = {}
        for h in case["holders"]:
            wc = WrappedClass(clazz=by_name[h])
            for wf in wc.fields:
                res[wf.field.name] = _pred_values(wf, env, ids)
        out["preds"] = res
        return out
    classes = [by_name[n] for n in case["classes"]]
    try:
        out["pyspec"] = _independent_reading(classes, by_name, env, ids)
    except Exception as e:  # noqa
        out["pyspec"] = ["error", f"{type(e).__name__}: {e}"]
    try:
        cd = ClassDiagram(classes)
    except Exception as e:  # noqa
        out["build"] = [1, _exn_code(e)]
        out["build_error"] = f"{type(e).__name__}: {e}"
        return out
    out["build"] = [0, _snapshot(cd, ids)]
    kinds = {}
    for w in cd.wrapped_classes:
        for wf in w.fields:
            owner = next((_cname(k) for k in w.clazz.__mro__ if wf.field.name in k.__dict__.get("__annotations__", {})), "?")
            kinds[f"{_cname(w.clazz)}.{wf.field.name}"] = [owner, _pred_values(wf, env, ids)]
    out["kinds"] = kinds
    objs = [cd]
    trace = []
    for op in case["ops"]:
        ans = []
        try:
            if op[0] == "sub":
                if op[1] < len(objs):
                    objs.append(objs[op[1]].to_subdiagram_without_inherited_associations(include_field_name=bool(op[2])))
            elif op[0] == "copy":
                if op[1] < len(objs):
                    objs.append(copy.copy(objs[op[1]]))
            elif op[0] == "query":
                if op[1] < len(objs):
                    try:
                        ans = _run_query(objs[op[1]], op[2], by_name, ids)
                    except TypeError as e:
                        # the installed rustworkx_utils has another RWXNode signature: rendering is unavailable here
                        if op[2][0] != "render" or "RWXNode" not in str(e):
                            raise
                        out["render_unavailable"] = out.get("render_unavailable", 0) + 1
        except Exception as e:  # noqa
            trace.append(["error", f"{op}: {type(e).__name__}: {e}"])
            break
        trace.append([ans, [_snapshot(o, ids) for o in objs]])
    out["trace"] = trace
    rb = case.get("rebuild")
    if rb:
        # the same process goes on: some classes are defined again (new class objects bound to the same names), then a
        # second diagram is built; names written as strings denote the new classes, direct references still the old ones
        import __future__
        mod = mods[0]
        flags = __future__.annotations.compiler_flag if case["variant"] == "future" else 0
        for n in rb["redefine"]:
            _OBJNAME[by_name[n]] = n + "__old"
            env[by_name[n]] = (env[by_name[n]][0], n + "__old")
        exec(compile(rb["source"], mod.__file__ + ":redefinition", "exec", flags, True), vars(mod))
        by_name2 = dict(by_name)
        for n in rb["redefine"]:
            by_name2[n + "__old"] = by_name[n]
            by_name2[n] = vars(mod)[n]
            env[by_name2[n]] = (env[by_name[n]][0], n)
        classes2 = [by_name2[n] for n in rb["classes"]]
        try:
            out["pyspec2"] = _independent_reading(classes2, by_name2, env, ids)
        except Exception as e:  # noqa
            out["pyspec2"] = ["error", f"{type(e).__name__}: {e}"]
        try:
            out["build2"] = [0, _snapshot(ClassDiagram(classes2), ids)]
        except Exception as e:  # noqa
            out["build2"] = [1, _exn_code(e)]
            out["build2_error"] = f"{type(e).__name__}: {e}"
    return out


def serve(work: str, names: List[str]) -> None:
    """Import krrood once, then run every case in a forked child (fresh interpreter state per class set)."""
    import krrood.class_diagrams.class_diagram  # noqa: F401  (warm import, nothing case-specific is loaded)
    for n in names:
        d = os.path.join(work, n)
        pid = os.fork()
        if pid == 0:
            code = 0
            try:
                import resource
                resource.setrlimit(resource.RLIMIT_CPU, (CPU_LIMIT_S, CPU_LIMIT_S + 5))   # a case that does not terminate
                case = json.load(open(os.path.join(d, "case.json")))
                res = run_case(case, d)
                json.dump(res, open(os.path.join(d, "result.json"), "w"))
            except BaseException as e:  # noqa
                json.dump({"crash": f"{type(e).__name__}: {e}"}, open(os.path.join(d, "result.json"), "w"))
                code = 1
            os._exit(code)
        _, status = os.waitpid(pid, 0)
        if os.WIFSIGNALED(status) and not os.path.exists(os.path.join(d, "result.json")):
            json.dump({"timeout": f"killed by signal {os.WTERMSIG(status)} after {CPU_LIMIT_S} s of CPU time"},
                      open(os.path.join(d, "result.json"), "w"))


# =====================================================================================================
# parent side
# =====================================================================================================
from . import core  # noqa: E402

HEADER = """From Coq Require Import List ZArith Bool PArith.
From Krrood Require Import Base.Sx Diagram.Ty Diagram.FieldKindSpec Diagram.DiagramSpec Gen.FieldKind Diagram.Diagram Diagram.SubDiagram.
Import ListNotations. Local Open Scope positive_scope.
Definition F (n : positive) (pr : bool) (t : ty) (d df : bool) : fdecl := Build_fdecl n pr t d df.
Definition D (n : positive) (k : dkind) (bs : list name) (fs : list fdecl) (hid : list name) (py : name) : decl := Build_decl n k bs fs hid py.
Definition S (t : nat) (b : bool) := OpSub t b.
Definition Cp (t : nat) := OpCopy t.
Definition Q (t : nat) (q : query) := OpQuery t q.
Definition case_sx (p : prog) (cs : list name) (ops : list op) : sx :=
  SL [SB (wf_prog p && wf_classes p cs); spec_sx p cs;
      match build p cs with
      | Ok g => SL [SL [SZ 0%Z; graph_sx g]; trace_sx g ops]
      | Raise e => SL [SL [SZ 1%Z; exn_sx e]; SL []]
      end]."""
HEADER_SPEC = """From Coq Require Import List ZArith Bool PArith.
From Krrood Require Import Base.Sx Diagram.Ty Diagram.FieldKindSpec Diagram.DiagramSpec.
Import ListNotations. Local Open Scope positive_scope.
Definition F (n : positive) (pr : bool) (t : ty) (d df : bool) : fdecl := Build_fdecl n pr t d df.
Definition D (n : positive) (k : dkind) (bs : list name) (fs : list fdecl) (hid : list name) (py : name) : decl := Build_decl n k bs fs hid py.
Definition case_sx (p : prog) (cs : list name) (ops : list nat) : sx :=
  SL [SB (wf_prog p && wf_classes p cs); spec_sx p cs]."""

# one scratch directory per run, so that concurrent checks (seeded runs, several seeds) do not overwrite each other
RUN = f"{PROP}/run_{os.getpid()}"
SCRATCH = core.WORK / RUN


def cb(b) -> str:
    return "true" if b else "false"


# ---------------------------------------------------------------------------------------- programs
def make_ids(decls) -> Dict[str, int]:
    """class names and field names -> positives; 1 is reserved (label of inheritance edges)"""
    ids: Dict[str, int] = {}
    for d in decls:
        ids.setdefault(d["name"], len(ids) + 2)
    for d in decls:
        for f in d["fields"]:
            ids.setdefault(f["name"], len(ids) + 2)
    for d in decls:
        ids.setdefault(d["name"] + "__old", len(ids) + 2)
        ids.setdefault(d.get("pyname", d["name"]), len(ids) + 2)
    return ids


def render_module(decls, variant: str, name: str, imports: str = "", layout: str = "module") -> str:
    """layout: 'module' (module-level classes), 'function' (all classes defined inside a function), 'nested' (all
    classes nested in a class Outer); in the last two the module only exposes CLASSES = {name: class}."""
    head = []
    if variant == "future":
        head.append("from __future__ import annotations")
    head += ["import enum", "from dataclasses import dataclass, field", "from datetime import datetime",
             "from typing import *", imports, ""]
    body = render_decls(decls, variant)
    names = ", ".join(f"{d['name']!r}: {d['name']}" for d in decls)
    if layout == "function":
        body = ["def make_classes():"] + ["    " + l if l else l for l in body] + [f"    return {{{names}}}", "", "CLASSES = make_classes()"]
    elif layout == "nested":
        names = ", ".join(f"{d['name']!r}: Outer.{d['name']}" for d in decls)
        body = ["class Outer:"] + ["    " + l if l else l for l in body] + ["", f"CLASSES = {{{names}}}"]
    return "\n".join(head + body) + "\n"


def render_decls(decls, variant: str) -> List[str]:
    lines: List[str] = []
    for d in decls:
        if d["kind"] == "enum":
            if d.get("meta"):   # an enumeration whose metaclass is a subclass of enum.EnumMeta
                lines += [f"class _Meta{d['name']}(enum.EnumMeta):", "    pass", "",
                          f"class {d['name']}(enum.Enum, metaclass=_Meta{d['name']}):", "    A = 1", "    B = 2", ""]
            else:
                lines += [f"class {d['name']}(enum.Enum):", "    A = 1", "    B = 2", ""]
            continue
        if d["kind"] == "plain":
            lines += [f"class {d['name']}:", "    pass", ""]
            continue
        bases = f"({', '.join(d['bases'])})" if d["bases"] else ""
        lines.append("@dataclass(kw_only=True)" if d.get("kw_only", True) else "@dataclass")
        lines.append(f"class {d['name']}{bases}:")
        if not d["fields"]:
            lines.append("    pass")
        for f in d["fields"]:
            t = tt(f["ann"])
            if variant == "whole" or (variant == "leaf" and (ty_has(t, "P") or ty_has(t, "U")) and ty_has(t, "F")):
                ann = '"' + ty_py(t, False) + '"' if (ty_has(t, "F") or variant == "whole") else ty_py(t, False)
            elif variant == "future":
                ann = ty_py(t, False)
            else:
                ann = ty_py(t, True)
            dflt = {"none": "", "value": " = None", "factory": " = field(default_factory=list)"}[f["default"]]
            lines.append(f"    {f['name']}: {ann}{dflt}")
        lines.append("")
    return lines


def prog_coq(decls, ids) -> str:
    ds = []
    for d in decls:
        kind = {"dataclass": "DDataclass", "enum": "DEnum", "plain": "DPlain"}[d["kind"]]
        fs = "; ".join(
            f"F {ids[f['name']]} {cb(f['name'].startswith('_'))} {ty_coq(tt(f['ann']), ids)} "
            f"{cb(f['default'] == 'value')} {cb(f['default'] == 'factory')}" for f in d["fields"])
        hid = "; ".join(str(ids[h]) for h in d.get("hidden", []))
        ds.append(f"D {ids[d['name']]} {kind} [{'; '.join(str(ids[b]) for b in d['bases'])}] [{fs}] [{hid}] {ids[d.get('pyname', d['name'])]}")
    return "[" + ";\n   ".join(ds) + "]"


def query_coq(q, ids) -> str:
    k = q[0]
    if k == "nodes":
        return "QNodes"
    if k == "associations":
        return "QAssociations"
    if k == "inheritance":
        return "QInheritance"
    if k == "outedges":
        return f"(QOutEdges {ids[q[1]]})"
    if k in ("outnb", "innb"):
        return f"({'QOutNeighbours' if k == 'outnb' else 'QInNeighbours'} {ids[q[1]]} {'EAssoc' if q[2] else 'EInh'})"
    if k == "ancestors":
        return f"(QAncestors {ids[q[1]]})"
    return "QOther"


def ops_coq(ops, ids) -> str:
    out = []
    for o in ops:
        if o[0] == "sub":
            out.append(f"S {o[1]}%nat {cb(o[2])}")
        elif o[0] == "copy":
            out.append(f"Cp {o[1]}%nat")
        else:
            out.append(f"Q {o[1]}%nat {query_coq(o[2], ids)}")
    return "[" + "; ".join(out) + "]"


def case_coq(case, with_ops: bool = True) -> str:
    """with_ops=False: the Spec-only header (model not available) has no operations"""
    ids = case["ids"]
    if not with_ops:
        cs = "[" + "; ".join(str(ids[c]) for c in case["classes"]) + "]"
        return f"case_sx\n  {prog_coq(case['decls'], ids)}\n  {cs} []"
    cs = "[" + "; ".join(str(ids[c]) for c in case["classes"]) + "]"
    return f"case_sx\n  {prog_coq(case['decls'], ids)}\n  {cs} {ops_coq(case['ops'], ids)}"


def mro_ok(decls) -> bool:
    """ask Python itself whether the hierarchy has a consistent MRO"""
    made = {}
    try:
        for d in decls:
            if d["kind"] == "dataclass":
                made[d["name"]] = type(d["name"], tuple(made[b] for b in d["bases"]), {})
    except TypeError:
        return False
    return True


def gen_ann(rng, targets_cls, targets_enum, earlier, variant, unsupported=False) -> tuple:
    r = rng.random()
    if r < 0.3 or not (targets_cls or targets_enum):
        leaf = ("B", rng.randint(0, 4))
    elif r < 0.8 and targets_cls or not targets_enum:
        n = rng.choice(targets_cls)
        leaf = ("C", n) if (n in earlier and variant == "leaf" and rng.chance(0.6)) else ("F", n)
    else:
        n = rng.choice(targets_enum)
        leaf = ("E", n) if (n in earlier and variant == "leaf" and rng.chance(0.6)) else ("F", n)
    if unsupported:
        w = rng.randint(0, 5)
        if w == 0 and len(targets_cls) >= 2:
            a, b = rng.sample(targets_cls, 2)
            return ("U", int(rng.chance(0.6)), ("F", a), ("F", b))
        if w <= 1:
            return ("D", ("B", 2), leaf)
        if w == 2:
            return ("D", ("B", 2), leaf)
        if w == 3:
            return ("O", ("K", rng.randint(0, 3), leaf))
        if w == 4:
            return ("K", rng.randint(0, 3), ("O", leaf))
        return ("O", ("T", leaf))
    r = rng.random()
    if r < 0.35:
        return leaf
    if r < 0.52:
        return ("O", leaf)
    if r < 0.56:
        return ("OL", leaf)   # Union[None, T], top level only (typing's cache hides it inside other generics)
    if r < 0.6:
        return ("P", leaf)    # T | None (PEP 604), top level only for the same reason
    if r < 0.9:
        return ("K", rng.randint(0, 3), leaf)
    return ("T", leaf)


def _leaf(t):
    return t if t[0] in ("B", "C", "E", "F", "FL", "Bare") else _leaf(t[-1])


def gen_query(rng, classes) -> list:
    r = rng.random()
    c = rng.choice(classes)
    if r < 0.4:
        return ["outedges", c]
    if r < 0.55:
        return [rng.choice(["outnb", "innb"]), c, rng.chance(0.5)]
    if r < 0.7:
        return rng.choice([["nodes"], ["associations"], ["inheritance"]])
    if r < 0.85:
        return ["ancestors", c]
    return rng.choice([["assockeys", rng.chance(0.5)], ["neighbours", c, rng.chance(0.5)],
                       ["roletaker", c], ["render", rng.chance(0.5)]])


def gen_ops(rng, classes) -> list:
    """Read-only operations on the diagram (object 0) and on everything derived from it.  Queries are interleaved in
    both orders (the same query on a view and then on its source, or the reverse), and the sequence ends with a sweep
    that asks every object for the out-edges of every class, the views first and the source last."""
    ops = []
    parent = [None]           # parent[i]: the object i was derived from
    for _i in range(rng.randint(0, 6)):
        r = rng.random()
        t = rng.randint(0, len(parent) - 1)
        if r < 0.35:
            ops.append(["sub", t, rng.chance(0.5)])
            parent.append(t)
        elif r < 0.45:
            ops.append(["copy", t])
            parent.append(t)
        elif r < 0.75 and len(parent) > 1:
            v = rng.randint(1, len(parent) - 1)
            q = gen_query(rng, classes)
            pair = [["query", v, q], ["query", parent[v], q]]
            if rng.chance(0.35):
                pair.reverse()
            ops += pair
        else:
            ops.append(["query", t, gen_query(rng, classes)])
    if len(parent) > 1 and rng.chance(0.85):
        for t in range(len(parent) - 1, -1, -1):
            for c in classes:
                ops.append(["query", t, ["outedges", c]])
            ops.append(["query", t, [rng.choice(["outnb", "innb"]), rng.choice(classes), rng.chance(0.5)]])
            ops.append(["query", t, ["ancestors", rng.choice(classes)]])
    elif rng.chance(0.5):
        for c in classes:
            ops.append(["query", 0, ["ancestors", c]])
    return ops


def gen_namesake(rng, stream: str) -> dict:
    """Two modules that do not import each other, generated independently with the same naming scheme, so that classes of the
    second module share their __name__ with classes of the first (model names <name>__m2).  Every module resolves its names
    in its own globals.  'namesake_tc': the first module in addition refers to a class T1 of the second that it imports under
    TYPE_CHECKING only, so that resolved_type needs its retry there."""
    for _ in range(50):
        a = gen_program(rng, "F")
        b = gen_program(rng, "F")
        if a["variant"] != b["variant"]:
            b = dict(b, variant=a["variant"])
        if stream == "namesake_tc" and any(len(d["bases"]) > 1 for d in a["decls"]):
            continue
        ren = {d["name"]: d["name"] + "__m2" for d in b["decls"]}
        d2 = []
        for d in b["decls"]:
            d2.append(dict(d, name=ren[d["name"]], pyname=d["name"], module=1, bases=[ren[x] for x in d["bases"]],
                           fields=[dict(f, name=f["name"] + "m", ann=ty_map_leaf(tt(f["ann"]), lambda l: (l[0], ren[l[1]]) if l[0] in ("C", "E", "F") else l))
                                   for f in d["fields"]]))
        d1 = [dict(d, module=0) for d in a["decls"]]
        dcs1 = [d["name"] for d in d1 if d["kind"] == "dataclass"]
        dcs2 = [d["name"] for d in d2 if d["kind"] == "dataclass"]
        shared = [n for n in dcs1 if n + "__m2" in dcs2]
        named = {_leaf(tt(f["ann"]))[1] for d in d1 + d2 for f in d["fields"] if _leaf(tt(f["ann"]))[0] == "F"}
        if not any(n in named or n + "__m2" in named for n in shared):
            continue   # some class that has a namesake must be named in a string
        if stream == "namesake_tc":
            d2.append({"name": "T1", "pyname": "T1", "module": 1, "kind": "dataclass", "bases": [], "kw_only": True,
                       "fields": [{"name": "t0", "ann": ("B", 0), "default": "value"}]})
            users = [d for d in d1 if d["kind"] == "dataclass" and any(_leaf(tt(f["ann"])) == ("F", n) for f in d["fields"] for n in shared)]
            if not users:
                continue
            u = rng.choice(users)
            u["fields"].append({"name": "q" + u["name"], "ann": rng.choice([("O", ("F", "T1")), ("F", "T1"), ("K", 0, ("F", "T1"))]), "default": "value"})
            u["hidden"] = ["T1"]
            dcs2.append("T1")
        pool = dcs1 + dcs2
        classes = rng.sample(pool, rng.randint(2, len(pool)))
        for n in shared:   # both namesakes in the diagram, in random relative order
            if rng.chance(0.7):
                for x in (n, n + "__m2"):
                    if x not in classes:
                        classes.insert(rng.randint(0, len(classes)), x)
        if stream == "namesake_tc" and u["name"] not in classes:
            classes.insert(rng.randint(0, len(classes)), u["name"])
        case = {"kind": "diagram", "stream": stream, "variant": a["variant"], "layout": "module", "decls": d1 + d2,
                "classes": classes, "ops": gen_ops(rng, classes) if rng.chance(0.4) else []}
        return finish_case(case)
    raise RuntimeError("generator could not produce namesakes")


def gen_namesake_missing(rng) -> dict:
    """Three modules.  m1: Item (and T1).  m3: another class of the __name__ Item, Parent { pit : ["Item"] } and
    Other { own : ["Item"], t : ["T1"] } with T1 imported under TYPE_CHECKING only.  m2: User { item : ["Item"] } and
    Child(Parent) { citem : ["Item"] }, where m2 has no class Item and imports m1's under TYPE_CHECKING only.
    The name the retry has to supply has a namesake: which class it denotes depends on the diagram (open findings C17-e/f)."""
    variant = rng.choice(["leaf", "whole", "future"])

    def wrap(leaf):
        r = rng.random()
        return leaf if r < 0.3 else ("O", leaf) if r < 0.6 else ("K", rng.randint(0, 3), leaf) if r < 0.9 else ("T", leaf)

    def fld(n, ann):
        return {"name": n, "ann": ann, "default": "value"}
    decls = [
        {"name": "Item", "module": 0, "kind": "dataclass", "bases": [], "kw_only": True, "fields": [fld("i0", ("B", 0))]},
        {"name": "T1", "module": 0, "kind": "dataclass", "bases": [], "kw_only": True, "fields": [fld("t0", ("B", 2))]},
        {"name": "Item__m3", "pyname": "Item", "module": 2, "kind": "dataclass", "bases": [], "kw_only": True, "fields": [fld("i3", ("B", 1))]},
        {"name": "Parent", "module": 2, "kind": "dataclass", "bases": [], "kw_only": True, "fields": [fld("pit", wrap(("F", "Item__m3")))]},
        {"name": "Other", "module": 2, "kind": "dataclass", "bases": [], "kw_only": True, "hidden": ["T1"],
         "fields": [fld("own", wrap(("F", "Item__m3"))), fld("t", wrap(("F", "T1")))]},
        {"name": "User", "module": 1, "kind": "dataclass", "bases": [], "kw_only": True, "hidden": ["Item"],
         "fields": [fld("item", wrap(("F", "Item")))]},
        {"name": "Child", "module": 1, "kind": "dataclass", "bases": ["Parent"], "kw_only": True, "hidden": ["Item"],
         "fields": [fld("citem", wrap(("F", "Item")))]},
    ]
    pool = [d["name"] for d in decls]
    classes = rng.sample(pool, rng.randint(3, len(pool)))
    case = {"kind": "diagram", "stream": "namesake_missing", "variant": variant, "layout": "module", "decls": decls,
            "classes": classes, "ops": gen_ops(rng, classes) if rng.chance(0.3) else []}
    return finish_case(case)


def gen_program(rng, stream: str) -> dict:
    """stream: 'F' (inside the theorem's fragment), 'shared' (field names shared between classes), 'override'
    (a subclass re-declares an inherited field), 'unsupported' (documented-unsupported annotation forms)."""
    for _ in range(50):
        variant = rng.choice(["leaf", "leaf", "whole", "future"])
        n_dc, n_en, n_pl = rng.randint(2, 6), rng.randint(0, 2), rng.randint(0, 1)
        kinds = ["dataclass"] * n_dc + ["enum"] * n_en + ["plain"] * n_pl
        rng.shuffle(kinds)
        decls, counter = [], {"dataclass": 0, "enum": 0, "plain": 0}
        for k in kinds:
            counter[k] += 1
            nm = {"dataclass": "C", "enum": "E", "plain": "P"}[k] + str(counter[k])
            decls.append({"name": nm, "kind": k, "bases": [], "fields": [], "kw_only": True})
            if k == "enum" and rng.chance(0.3):
                decls[-1]["meta"] = True
        dcs = [d["name"] for d in decls if d["kind"] == "dataclass"]
        cls_targets = [d["name"] for d in decls if d["kind"] != "enum"]
        enum_targets = [d["name"] for d in decls if d["kind"] == "enum"]
        earlier: List[str] = []
        fcount = 0
        anc: Dict[str, set] = {}
        allf: Dict[str, List[dict]] = {}
        for d in decls:
            if d["kind"] == "dataclass":
                prev = [n for n in earlier if n in dcs]
                r = rng.random()
                if prev and r < 0.55:
                    nb = 2 if (len(prev) >= 2 and r < 0.15) else 1
                    d["bases"] = rng.sample(prev, nb)
                anc[d["name"]] = set(d["bases"]).union(*[anc[b] for b in d["bases"]]) if d["bases"] else set()
                inherited = [f for a in anc[d["name"]] for f in allf[a]]
                for _k in range(rng.randint(0, 3)):
                    fcount += 1
                    private = rng.chance(0.1)
                    nm = ("_p" if private else "a") + str(fcount)
                    if stream == "shared" and rng.chance(0.5):
                        nm = rng.choice(["name", "parts", "owner"])
                        if nm in [f["name"] for f in d["fields"]] or nm in [f["name"] for f in inherited]:
                            continue
                    if stream == "override" and inherited and rng.chance(0.6) and len(d["bases"]) == 1:
                        nm = rng.choice(inherited)["name"]
                        if nm in [f["name"] for f in d["fields"]]:
                            continue
                    ann = gen_ann(rng, cls_targets, enum_targets, earlier, variant,
                                  unsupported=(stream == "unsupported" and rng.chance(0.5)))
                    dflt = rng.choice(["none", "value", "value", "factory"])
                    d["fields"].append({"name": nm, "ann": ann, "default": dflt})
                allf[d["name"]] = d["fields"]
            earlier.append(d["name"])
        if not mro_ok(decls):
            continue
        if stream == "shared":
            # a name may be shared by unrelated classes only: no class sees it from two of its ancestors-or-self
            clash = False
            for d in decls:
                if d["kind"] == "dataclass":
                    names = [f["name"] for a in (anc[d["name"]] | {d["name"]}) for f in allf[a]]
                    clash = clash or len(names) != len(set(names))
            if clash:
                continue
        layout = "module"
        if stream in ("local", "local_missing"):
            # all classes defined inside a function, or nested in a class: a name written as a string is found neither in
            # the module globals nor by a scan of the loaded modules, only in the diagram (resolved_type's fallback)
            layout = rng.choice(["function", "nested"])
            dc_set = set(dcs)

            def conv(leaf):
                if leaf[0] == "F" or (leaf[0] in ("C", "E") and (layout == "nested" or variant != "leaf")):
                    # only dataclasses can be in the diagram; a string naming a local enum / plain class cannot be resolved by anybody
                    return ("FL", leaf[1]) if leaf[1] in dc_set else ("B", rng.randint(0, 4))
                return leaf
            for d in decls:
                for f in d["fields"]:
                    f["ann"] = ty_map_leaf(tt(f["ann"]), conv)
            if not any(ty_has(tt(f["ann"]), "FL") for d in decls for f in d["fields"]):
                continue
        if stream == "typecheck":
            # the first k declarations form a module that sees the rest only under TYPE_CHECKING
            if len(decls) < 2:
                continue
            k = rng.randint(1, len(decls) - 1)
            later = [d["name"] for d in decls[k:]]
            used = any(ty_has(tt(f["ann"]), "F") and _leaf(tt(f["ann"]))[1] in later for d in decls[:k] for f in d["fields"])
            if not used:
                continue
            for d in decls[:k]:
                d["hidden"] = list(later)
        if stream == "override":
            # overriding in a diamond is outside even the sampled class (dataclasses and get_type_hints disagree there)
            over = any(f["name"] in [g["name"] for a in anc[d["name"]] for g in allf[a]] for d in decls
                       if d["kind"] == "dataclass" for f in d["fields"])
            multi = any(len(d["bases"]) > 1 for d in decls)
            if not over or multi:
                continue
        k = len(dcs) if rng.chance(0.5) else rng.randint(1, len(dcs))
        classes = rng.sample(dcs, k)
        if stream in ("local", "local_missing"):
            used = {_leaf(tt(f["ann"]))[1] for d in decls for f in d["fields"] if _leaf(tt(f["ann"]))[0] == "FL"}
            if stream == "local":
                classes = classes + [n for n in dcs if n in used and n not in classes]   # every local name is in the diagram
                rng.shuffle(classes)
            else:
                # leave out one class that a diagram class refers to by a local name: nobody can resolve it
                cand = sorted(used)
                drop = rng.choice(cand)
                classes = [n for n in dcs if n != drop]
                if not classes:
                    continue
        ops = gen_ops(rng, classes)
        case = {"kind": "diagram", "stream": stream, "variant": variant, "layout": layout, "decls": decls, "classes": classes, "ops": ops}
        if stream == "rebuild":
            # a second diagram in the same process after one class was defined again: a dataclass that others name in strings
            named = sorted({_leaf(tt(f["ann"]))[1] for d in decls for f in d["fields"] if _leaf(tt(f["ann"]))[0] == "F"} & set(dcs))
            if not named:
                continue
            n = rng.choice(named)
            classes2 = list(dict.fromkeys(rng.sample(dcs, rng.randint(1, len(dcs))) + [n]
                                          + [d["name"] for d in decls if any(_leaf(tt(f["ann"])) == ("F", n) for f in d["fields"]) and d["kind"] == "dataclass"]))
            rng.shuffle(classes2)
            case["rebuild"] = {"redefine": [n], "classes": classes2}
        return finish_case(case)
    raise RuntimeError("generator could not produce a valid hierarchy")


def second_program(case: dict) -> Tuple[list, list]:
    """The program the second diagram of a 'rebuild' case is built from: every redefined class n exists twice, the
    replaced object as n__old (still what direct references denote) and the new one as n (what names in strings denote)."""
    red = set(case["rebuild"]["redefine"])

    def old_leaf(leaf):
        return (leaf[0], leaf[1] + "__old") if leaf[0] in ("C", "E") and leaf[1] in red else leaf
    decls2 = []
    for d in case["decls"]:
        d2 = dict(d, fields=[dict(f, ann=ty_map_leaf(tt(f["ann"]), old_leaf)) for f in d["fields"]],
                  bases=[b + "__old" if b in red else b for b in d["bases"]])
        decls2.append(dict(d2, name=d["name"] + "__old") if d["name"] in red else d2)
    # the new definitions come last (they are executed after everything else)
    for d in case["decls"]:
        if d["name"] in red:
            decls2.append(dict(d, fields=[dict(f, ann=ty_map_leaf(tt(f["ann"]), old_leaf)) for f in d["fields"]],
                               bases=[b + "__old" if b in red else b for b in d["bases"]]))
    return decls2, list(case["rebuild"]["classes"])


def finish_case(case: dict) -> dict:
    case["ids"] = make_ids(case["decls"])
    if case.get("rebuild"):
        case["rebuild"]["source"] = "\n".join(render_decls([d for d in case["decls"] if d["name"] in case["rebuild"]["redefine"]],
                                                            case["variant"])) + "\n"
    first = [d for d in case["decls"] if d.get("hidden")]
    if any("module" in d for d in case["decls"]):
        py = {d["name"]: d.get("pyname", d["name"]) for d in case["decls"]}

        def rename(d):
            return dict(d, name=py[d["name"]], bases=[py[b] for b in d["bases"]],
                        fields=[dict(f, ann=ty_map_leaf(tt(f["ann"]), lambda l: (l[0], py[l[1]]) if l[0] in ("C", "E", "F", "FL") else l))
                                for f in d["fields"]])
        nmod = max(d["module"] for d in case["decls"]) + 1
        case["modules"] = []
        for i in range(nmod):
            mine = [d for d in case["decls"] if d["module"] == i]
            imports = []
            # base classes of another module are imported for real; names only annotations need, under TYPE_CHECKING
            for d in mine:
                for b in d["bases"]:
                    owner = next(x for x in case["decls"] if x["name"] == b)
                    if owner["module"] != i:
                        imports.append(f"from c17_m{owner['module'] + 1} import {py[b]}")
            hidden = sorted({h for d in mine for h in d.get("hidden", [])})
            tc = [f"    from c17_m{next(x for x in case['decls'] if x['name'] == h)['module'] + 1} import {py[h]}" for h in hidden]
            if tc:
                imports += ["if TYPE_CHECKING:"] + tc
            case["modules"].append({"name": f"c17_m{i + 1}", "source": render_module([rename(d) for d in mine], case["variant"],
                                                                                       f"c17_m{i + 1}", "\n".join(dict.fromkeys(imports)))})
    elif first:
        # classes with hidden names live in c17_m1, which imports the others under TYPE_CHECKING only
        k = max(i for i, d in enumerate(case["decls"]) if d.get("hidden")) + 1
        m1, m2 = case["decls"][:k], case["decls"][k:]
        hidden = sorted({h for d in m1 for h in d.get("hidden", [])})
        imp1 = "if TYPE_CHECKING:\n    from c17_m2 import " + ", ".join(hidden)
        case["modules"] = [{"name": "c17_m1", "source": render_module(m1, case["variant"], "c17_m1", imp1)},
                           {"name": "c17_m2", "source": render_module(m2, case["variant"], "c17_m2", "from c17_m1 import *")}]
    else:
        case["modules"] = [{"name": "c17_scratch", "source": render_module(case["decls"], case["variant"], "c17_scratch",
                                                                           layout=case.get("layout", "module"))}]
    return case


# ---------------------------------------------------------------------------------------- classification sweep
def enum_annotations(depth: int = 2) -> List[tuple]:
    """every annotation of the grammar (supported and unsupported constructors) up to depth 2, in typing's normal form"""
    leaves = [("B", i) for i in range(6)] + [("C", "C1"), ("C", "P1"), ("E", "E1"), ("E", "E2"), ("F", "C1"), ("F", "E1")] + \
             [("Bare", o) for o in (4, 5, 6, 7, 8, 9)]

    def wraps(t):
        union_like = t[0] in ("O", "OL", "P") or t == ("B", 5)
        out = []
        if not union_like:
            out += [("O", t), ("OL", t)]
            if t[0] in ("B", "C", "E", "F"):   # `X | None` is a types.UnionType only between classes; typing objects turn it into Optional[...]
                out.append(("P", t))
        out += [("K", k, t) for k in range(4)] + [("T", t), ("D", ("B", 2), t)]
        return out

    d1 = [w for t in leaves for w in wraps(t)]
    # unions of two types without None (documented-unsupported: "the only supported union is Optional[T]"), top level only
    pair_leaves = [("B", 0), ("B", 2), ("C", "C1"), ("C", "P1"), ("E", "E1"), ("F", "C1")]
    unions = [("U", pep, a, b) for pep in (0, 1) for a in pair_leaves for b in pair_leaves
              if a != b and not (a[0] in ("C", "F") and b[0] in ("C", "F") and a[1] == b[1])]
    # Union[None, T] / T | None nested in another generic is not observable: typing's generic cache identifies it with Optional[T]
    d2 = [w for t in d1 if t[0] not in ("OL", "P") for w in wraps(t)]   # (unions are not wrapped either, same reason)
    if depth >= 3:
        d3 = [w for t in d2 if t[0] not in ("OL", "P") for w in wraps(t)]
        return leaves + d1 + unions + d2 + d3
    return leaves + d1 + unions + d2


CLASSIFY_DECLS = [{"name": "E1", "kind": "enum", "bases": [], "fields": []},
                  {"name": "E2", "kind": "enum", "meta": True, "bases": [], "fields": []},
                  {"name": "P1", "kind": "plain", "bases": [], "fields": []},
                  {"name": "C1", "kind": "dataclass", "bases": [], "fields": [], "kw_only": True}]


def classify_case(anns: List[tuple]) -> dict:
    decls = [dict(d) for d in CLASSIFY_DECLS]
    holders = []
    for k in range(0, len(anns), 40):
        h = {"name": f"H{k // 40}", "kind": "dataclass", "bases": [], "kw_only": True,
             "fields": [{"name": f"x{k + j}", "ann": a, "default": ["none", "value", "factory"][(k + j) % 3]}
                        for j, a in enumerate(anns[k:k + 40])]}
        decls.append(h)
        holders.append(h["name"])
    case = {"kind": "classify", "variant": "leaf", "decls": decls, "holders": holders, "classes": [], "ops": []}
    return finish_case(case)


# ---------------------------------------------------------------------------------------- running cases
def run_worker_batch(cases: List[dict], tag: str, procs: int = 8) -> List[dict]:
    import shutil
    SCRATCH.mkdir(parents=True, exist_ok=True)
    for old in SCRATCH.glob(f"w_{tag}_*"):
        shutil.rmtree(old, ignore_errors=True)
    names = []
    for i, c in enumerate(cases):
        n = f"w_{tag}_{i:04d}"
        d = SCRATCH / n
        d.mkdir(parents=True, exist_ok=True)
        for old in d.glob("*"):
            if old.is_file():
                old.unlink()
        for m in c["modules"]:
            (d / (m["name"] + ".py")).write_text(m["source"])
        (d / "case.json").write_text(json.dumps(c))
        names.append(n)
    slices = [names[k::procs] for k in range(procs) if names[k::procs]]

    def go(sl):
        return subprocess.run([core.PY, "-m", "harness.c17", "--serve", str(SCRATCH), *sl], cwd=str(core.VERIF),
                              env=dict(core.IMPL_ENV, PYTHONDONTWRITEBYTECODE="1"), stdout=subprocess.PIPE,
                              stderr=subprocess.STDOUT, text=True, timeout=1800)

    with ThreadPoolExecutor(max_workers=max(1, len(slices))) as ex:
        logs = list(ex.map(go, slices))
    out = []
    for n in names:
        p = SCRATCH / n / "result.json"
        if p.exists():
            out.append(json.loads(p.read_text()))
        else:
            out.append({"crash": "no result; worker output: " + " | ".join(l.stdout[-300:] for l in logs)})
    return out


def snippet(case) -> str:
    local = case.get("layout", "module") != "module"

    mod_of = {d["name"]: (d["module"], d.get("pyname", d["name"])) for d in case["decls"] if "module" in d}

    def cref(n):   # local classes must not become module-level names of the script (that would bypass the fallback)
        if n in mod_of:
            return f"c17_m{mod_of[n][0] + 1}.{mod_of[n][1]}"
        return f"CLASSES[{n!r}]" if local else n
    if len(case["modules"]) == 1:
        src = case["modules"][0]["source"]
    else:
        src = "import os, sys, tempfile\nd = tempfile.mkdtemp(); sys.path.insert(0, d)\n" + "".join(
            f"open(os.path.join(d, {m['name'] + '.py'!r}), 'w').write({m['source']!r})\n" for m in case["modules"]) + \
            ("import " + ", ".join(m["name"] for m in case["modules"]) + "\n" if mod_of else "from c17_m1 import *\nfrom c17_m2 import *\n")
    classes = ", ".join(cref(c) for c in case["classes"])
    lines = [src, "from krrood.class_diagrams.class_diagram import ClassDiagram, Association, Inheritance", "import copy",
             f"cd = ClassDiagram([{classes}])",
             "snap = lambda d: sorted((type(e).__name__, e.source.clazz.__module__ + '.' + e.source.clazz.__name__, e.target.clazz.__module__ + '.' + e.target.clazz.__name__, getattr(getattr(e, 'field', None), 'name', None)) for e in d._dependency_graph.edges())",
             "objs = [cd]; before = snap(cd); print([w.clazz.__name__ for w in cd.wrapped_classes], before)"]
    for o in case["ops"]:
        if o[0] == "sub":
            lines.append(f"objs.append(objs[{o[1]}].to_subdiagram_without_inherited_associations(include_field_name={bool(o[2])})); print('source intact:', snap(cd) == before)")
        elif o[0] == "copy":
            lines.append(f"objs.append(copy.copy(objs[{o[1]}]))")
        elif o[2][0] == "outedges":
            c = cref(o[2][1])
            lines.append(f"print('object {o[1]} out-edges of {o[2][1]}:', sorted(str(e) + ':' + e.target.clazz.__name__ for e in objs[{o[1]}].get_out_edges({c})), "
                         f"'| its graph says:', sorted(str(e) + ':' + e.target.clazz.__name__ for _, _, e in objs[{o[1]}]._dependency_graph.out_edges(objs[{o[1]}].get_wrapped_class({c}).index)))")
        elif o[2][0] in ("outnb", "innb"):
            meth = "get_outgoing_neighbors_with_relation_type" if o[2][0] == "outnb" else "get_incoming_neighbors_with_relation_type"
            lines.append(f"print('object {o[1]} {o[2][0]} {o[2][1]}:', sorted(w.clazz.__name__ for w in objs[{o[1]}].{meth}({cref(o[2][1])}, {'Association' if o[2][2] else 'Inheritance'})))")
    return "\n".join(lines)


# ---------------------------------------------------------------------------------------- classification check
def check_classification(rep, model_ok: bool, kf_classes: set, depth: int = 2) -> Dict[str, Any]:
    real_rep, n_viol = rep, [0]

    class _Capped:
        """at most 8 classification replays per run; the rest is counted"""
        def violation(self, replay, suffix=""):
            n_viol[0] += 1
            if n_viol[0] <= 8:
                real_rep.violation(replay, suffix)

        def __getattr__(self, a):
            return getattr(real_rep, a)

    rep = _Capped()
    anns = enum_annotations(depth)
    case = classify_case(anns)
    res = run_worker_batch([case], "classify", procs=1)[0]
    stats = {"annotations": len(anns), "in_wf_ty": 0, "union_none_first": 0, "pep604_top": 0, "mismatch_model": 0}
    if "preds" not in res:
        rep.oblige("correspondence:translator", False, f"classification sweep did not run: {res}")
        return stats
    ids = case["ids"]
    kinds = {d["name"]: d["kind"] for d in case["decls"]}
    prog = prog_coq(CLASSIFY_DECLS, ids)
    fields = [f for d in case["decls"] if d["name"].startswith("H") for f in d["fields"]]
    spec_vals = core.coq_values(RUN, HEADER_SPEC, [f"spec_kind_sx {ty_coq(ty_resolve(tt(f['ann']), kinds), ids)}" for f in fields],
                                chunk=400, tag="cls_spec")
    model_vals = None
    if model_ok:
        model_vals = core.coq_values(RUN, HEADER, [
            f"classify_sx {prog} {ty_coq(tt(f['ann']), ids)} {cb(f['default'] == 'value')} {cb(f['default'] == 'factory')}"
            for f in fields], chunk=400, tag="cls_model")
    bad_model = []
    observations: Dict[str, int] = {}
    for i, f in enumerate(fields):
        t = tt(f["ann"])
        rt = ty_resolve(t, kinds)
        impl = res["preds"].get(f["name"])
        key = "classify:" + repr(t)
        inwf = wf_ty(rt)
        rep.count(key, True)
        if inwf:
            stats["in_wf_ty"] += 1
            if rt[0] == "OL":
                stats["union_none_first"] += 1
            if rt[0] == "P":
                stats["pep604_top"] += 1
        if model_vals is not None and impl != model_vals[i]:
            stats["mismatch_model"] += 1
            bad_model.append((t, impl, model_vals[i]))
        if impl is None:
            continue
        if inwf:
            if impl[:9] != spec_vals[i]:
                rep.violation({"kind": "counterexample", "part": "classification", "case": {"annotation": ty_py(t, True)},
                               "impl": dict(zip(PRED_NAMES[:9], impl[:9])), "spec": dict(zip(PRED_NAMES[:9], spec_vals[i])),
                               "model": None if model_vals is None else model_vals[i],
                               "python": _classify_snippet(t)})
        elif rt[0] == "U":
            # a union of two types, none of them None: the annotation says NOT optional, no container, and it is not about
            # one of its members (no association edge); is_enum / one-to-one are left to the model (unsupported form)
            stats["union_pairs"] = stats.get("union_pairs", 0) + 1
            idx = [1, 3, 5, 6, 7, 8]
            if [impl[j] for j in idx] != [spec_vals[i][j] for j in idx]:
                rep.violation({"kind": "counterexample", "part": "classification", "case": {"annotation": ty_py(t, True)},
                               "impl": dict(zip(PRED_NAMES[:9], impl[:9])), "spec": dict(zip(PRED_NAMES[:9], spec_vals[i])),
                               "model": None if model_vals is None else model_vals[i], "python": _classify_snippet(t),
                               "explanation": "a union of two types without None is classified optional / container / resolved to one of its members"})
        if rt[0] == "K" and rt[1] == 2 and isinstance(impl[9], list):
            observations["is_collection_of_builtins raises on Tuple[T, ...] (AttributeError on Ellipsis; outside the property's kinds)"] = \
                observations.get("is_collection_of_builtins raises on Tuple[T, ...] (AttributeError on Ellipsis; outside the property's kinds)", 0) + 1
    if model_vals is not None:
        detail = "" if not bad_model else "; ".join(f"{ty_py(t, True)}: impl={i} model={m}" for t, i, m in bad_model[:3])
        rep.oblige("correspondence:translator", not bad_model,
                   f"{len(fields)} annotations, all 13 predicates equal" if not bad_model else detail)
    stats["observations"] = observations
    stats["violations_found"] = n_viol[0]
    return stats


def _classify_snippet(t) -> str:
    return ("import enum\nfrom dataclasses import dataclass\nfrom datetime import datetime\nfrom typing import *\n"
            "from krrood.class_diagrams.class_diagram import WrappedClass\n"
            "class E1(enum.Enum):\n    A = 1\nclass P1: pass\n@dataclass\nclass C1: pass\n"
            f"@dataclass\nclass H:\n    x: {ty_py(t, True)}\n"
            "f = WrappedClass(clazz=H).fields[0]\n"
            "for p in " + repr(PRED_NAMES[:9]) + ":\n"
            "    try: print(p, getattr(f, p))\n    except Exception as e: print(p, type(e).__name__)\n")


# ---------------------------------------------------------------------------------------- diagram check
def stream_of(case) -> str:
    return case.get("stream", "F")


def check_diagrams(rep, cases: List[dict], model_ok: bool, kf_classes: set, tag: str = "dia") -> Dict[str, Any]:
    results = run_worker_batch(cases, tag)
    header = HEADER if model_ok else HEADER_SPEC
    _viol, _obl = rep.violation, rep.oblige
    seen_parts: Dict[str, int] = {}

    class _Capped:
        """at most 4 replays per part and one line per failed obligation; the rest is counted"""
        def violation(self, replay, suffix=""):
            k = "v:" + str(replay.get("part"))
            seen_parts[k] = seen_parts.get(k, 0) + 1
            if seen_parts[k] <= 4:
                _viol(replay, suffix)

        def oblige(self, name, ok, detail=""):
            if ok:
                return _obl(name, ok, detail)
            seen_parts[name] = seen_parts.get(name, 0) + 1
            if seen_parts[name] == 1:
                _obl(name, ok, detail)

        def __getattr__(self, a):
            return getattr(real_rep, a)

    real_rep, rep = rep, _Capped()
    vals = core.coq_values(RUN, header, [case_coq(c, model_ok) for c in cases], chunk=20, tag=tag + "_coq")
    vals2: Dict[int, Any] = {}
    rb_cases = [c for c in cases if c.get("rebuild")]
    if rb_cases:
        exprs = []
        for c in rb_cases:
            d2, cs2 = second_program(c)
            exprs.append(case_coq({"decls": d2, "classes": cs2, "ops": [], "ids": c["ids"]}, model_ok))
        for c, v in zip(rb_cases, core.coq_values(RUN, header, exprs, chunk=20, tag=tag + "_coq2")):
            vals2[id(c)] = v
    dist = {"cases": len(cases), "invalid": 0, "in_F": 0, "streams": {}, "variants": {}, "classes": {}, "edges_inh": 0,
            "edges_assoc": 0, "ops": 0, "sub_ops": 0, "sub_that_removed": 0, "build_raises": 0, "kf_instances": {}}
    kind_exprs: Dict[str, Tuple[str, Any]] = {}
    for c, r, v in zip(cases, results, vals):
        st = stream_of(c)
        if "timeout" in r:
            rep.count(json.dumps([c["decls"], c["classes"], c["ops"], c["variant"]], sort_keys=True), True)
            rep.violation({"kind": "counterexample", "part": "edges", "case": {k: c[k] for k in ("decls", "classes", "ops", "variant", "stream", "layout") if k in c},
                           "impl": ["timeout", r["timeout"]], "spec": vals[cases.index(c)][1], "python": snippet(c),
                           "explanation": "building the diagram / running the read-only operations did not terminate within the CPU-time limit"})
            continue
        if "invalid" in r or "crash" in r:
            dist["invalid"] += 1
            rep.note(f"case skipped ({r.get('invalid') or r.get('crash')})")
            continue
        key = json.dumps([c["decls"], c["classes"], c["ops"], c["variant"]], sort_keys=True)
        in_f = bool(v[0])
        spec = v[1]
        model = v[2][0] if model_ok else None
        model_trace = v[2][1] if model_ok else None
        impl = r["build"]
        pyspec = [0, r["pyspec"]] if r["pyspec"] and r["pyspec"][0] != "error" else None
        dist["streams"][st] = dist["streams"].get(st, 0) + 1
        dist["variants"][c["variant"]] = dist["variants"].get(c["variant"], 0) + 1
        dist["classes"][len(c["classes"])] = dist["classes"].get(len(c["classes"]), 0) + 1
        dist["in_F"] += int(in_f)
        nontrivial = impl[0] == 0 and len(impl[1][1]) > 0
        rep.count(key, nontrivial)
        if impl[0] == 0:
            dist["edges_inh"] += len([e for e in impl[1][1] if e[0] == 0])
            dist["edges_assoc"] += len([e for e in impl[1][1] if e[0] == 1])
        else:
            dist["build_raises"] += 1
        base = {"case": {k: c[k] for k in ("decls", "classes", "ops", "variant", "stream", "layout") if k in c},
                "python": snippet(c)}
        # ---------------- structure
        use_coq_spec = st not in ("override", "unsupported", "local_missing")
        reference = spec if use_coq_spec else pyspec
        if st == "F" and not in_f:
            rep.oblige("generator:F", False, f"a case of the F stream is outside wf_prog: {c['decls']}")
        if use_coq_spec and pyspec is not None and pyspec != spec:
            rep.oblige("correspondence:spec-vs-independent-reading", False,
                       f"Coq Spec {spec} differs from the get_type_hints reading {pyspec} on {c['decls']}")
        if st == "namesake_missing" and model_ok and reference is not None and impl[0] == 0 \
                and predict_missing_namesake(c, reference) != model:
            rep.oblige("correspondence:predictor", False, f"harness twin of Diagram.shadow differs from the model: "
                       f"{predict_missing_namesake(c, reference)} vs {model} on {c['classes']}")
        if st == "local_missing":
            # a class is referred to by a name nobody can resolve (defined in a function, absent from the diagram): the
            # Spec is silent; the model predicts what the code does (TypeResolutionError unless no diagram class reads it)
            if model_ok and impl != model:
                rep.oblige("correspondence:model", False, f"[local name outside the diagram] impl={impl} model={model} on {c['decls']} {c['classes']}")
        elif st == "unsupported":
            # documented-unsupported forms: no Spec; the model must still predict the code (faithfulness), and the
            # Union[None, X] finding is recognised here
            if model_ok and impl != model:
                rep.oblige("correspondence:model", False, f"[unsupported forms] impl={impl} model={model} on {c['decls']} {c['classes']}")
            if pyspec is not None and impl != pyspec:
                cls = classify_unsupported_diff(c, impl, pyspec)
                dist["kf_instances"][cls] = dist["kf_instances"].get(cls, 0) + 1
                if cls == "other" or (cls not in kf_classes or (model_ok and impl != model)):
                    rep.violation(dict(base, kind="counterexample", part="edges", impl=impl, spec=pyspec, model=model,
                                       explanation="differs from the independent reading in a way no listed class explains"))
        elif st == "namesake_missing" and reference is not None and impl != reference and "K_missing_namesake" in kf_classes \
                and ((model_ok and impl == model) or (not model_ok and impl == predict_missing_namesake(c, reference))):
            # open findings C17-e / C17-f, exactly as the faithful model predicts (Diagram.shadow)
            dist["kf_instances"]["K_missing_namesake"] = dist["kf_instances"].get("K_missing_namesake", 0) + 1
        elif reference is not None and impl != reference:
            rep.violation(dict(base, kind="counterexample", part="edges", impl=impl, spec=reference, model=model, in_F=in_f,
                               explanation="graph encoding: [0, [nodes in order, sorted edges [kind 0 inh/1 assoc, source, target, field]]] or [1, exception]; names are numbered by case['ids']",
                               ids=c["ids"]))
        elif model_ok and impl != model:
            rep.oblige("correspondence:model", False, f"impl={impl} model={model} spec={spec} on {c['decls']} {c['classes']}")
        # ---------------- the second diagram of the same process (after a class was defined again)
        if c.get("rebuild") and "build2" in r:
            v2 = vals2[id(c)]
            spec2, model2 = v2[1], (v2[2][0] if model_ok else None)
            impl2 = r["build2"]
            py2 = [0, r["pyspec2"]] if r.get("pyspec2") and r["pyspec2"][0] != "error" else None
            dist["second_diagrams"] = dist.get("second_diagrams", 0) + 1
            if py2 is not None and py2 != spec2:
                rep.oblige("correspondence:spec-vs-independent-reading", False, f"[second diagram] Coq Spec {spec2} differs from the reading {py2} on {c['decls']} {c['rebuild']}")
            if impl2 != spec2:
                rep.violation(dict(base, kind="counterexample", part="edges", second_diagram=True, impl=impl2, spec=spec2, model=model2,
                                   python=snippet(c) + "\n" + c["rebuild"]["source"] + f"print('second diagram:', snap(ClassDiagram([{', '.join(c['rebuild']['classes'])}])))",
                                   explanation="a second diagram built in the same process after one class was defined again (new object under the same name): names "
                                               "written as strings denote the new class; ids of replaced objects are those of <name>__old", ids=c["ids"]))
            elif model_ok and impl2 != model2:
                rep.oblige("correspondence:model", False, f"[second diagram] impl={impl2} model={model2} on {c['decls']} {c['rebuild']}")
        # ---------------- classification of the diagram's fields (against the Spec, for supported annotations)
        kinds = {d["name"]: d["kind"] for d in c["decls"]}
        for fk, (owner, pv) in (r.get("kinds") or {}).items():
            fname = fk.split(".", 1)[1]
            ann = next((tt(f["ann"]) for d in c["decls"] if d["name"] == owner for f in d["fields"] if f["name"] == fname), None)
            if ann is None:
                continue
            rt = ty_resolve(ann, kinds)
            if wf_ty(rt):
                # names are case-local: canonical ids for the spec query
                kind_exprs.setdefault(repr((rt, pv[:9], c["ids"])), (rt, pv[:9], c, fk))
        # ---------------- views: observations = graph of every object + the answers of the queries
        trace = r.get("trace") or []
        dist["ops"] += len(c["ops"])
        dist["render_unavailable"] = dist.get("render_unavailable", 0) + r.get("render_unavailable", 0)
        if impl[0] == 0:
            src = impl[1]
            prev = [src]
            root = [0]                     # root[i]: the object whose graph cell object i reads (copies alias)
            flagged = False
            for step, (op, entry) in enumerate(zip(c["ops"], trace)):
                if entry and entry[0] == "error":
                    rep.violation(dict(base, kind="counterexample", part="views", step=step, impl=entry,
                                       explanation="a read-only operation raised"))
                    flagged = True
                    break
                ans, snaps = entry
                if snaps[0] != src:
                    rep.violation(dict(base, kind="counterexample", part="views", step=step, op=op, impl=snaps[0], spec=src,
                                       explanation="the graph of the source diagram (object 0) reads differently after this read-only operation"))
                    flagged = True
                    break
                if op[0] == "query":
                    dist["queries"] = dist.get("queries", 0) + 1
                    if snaps != prev:
                        rep.violation(dict(base, kind="counterexample", part="views", step=step, op=op, impl=snaps, spec=prev,
                                           explanation="a query changed the graph of a diagram object"))
                        flagged = True
                        break
                    if op[1] < len(prev):
                        want = expected_answer(snaps[op[1]], op[2], c["ids"])
                        if op[2][0] in ("nodes", "associations", "inheritance", "outedges", "outnb", "innb", "ancestors"):
                            dist["answers_compared"] = dist.get("answers_compared", 0) + 1
                        if ans != want:
                            on_source = root[op[1]] == 0
                            if on_source:
                                rep.violation(dict(base, kind="counterexample", part="views", step=step, op=op, impl=ans, spec=want,
                                                   model=None if model_trace is None else model_trace[step][0],
                                                   explanation="after read-only operations on the diagram and its derived views, this query on the SOURCE diagram "
                                                               "answers differently from what the source's (unchanged) graph says; encoding: outedges -> "
                                                               "[get_out_edges, get_outgoing_relations, get_associations_with_condition(True)] as sorted edges"))
                                flagged = True
                                break
                            rep.oblige("correspondence:views-answers", False,
                                       f"object {op[1]} answers {ans} to {op[2]} but its graph says {want}; {c['decls']} {c['classes']} {c['ops']}")
                elif op[0] == "sub":
                    dist["sub_ops"] += 1
                    if op[1] < len(prev):
                        root.append(len(prev))
                        if snaps[-1] != snaps[op[1]]:
                            dist["sub_that_removed"] += 1
                elif op[0] == "copy" and op[1] < len(prev):
                    root.append(root[op[1]])
                prev = snaps
            if model_ok and not flagged and len(trace) == len(c["ops"]):
                impl_trace = [[e[0][0] if op[2][0] == "ancestors" and e[0] else e[0]] if op[0] == "query" else [e[0], e[1]]
                              for op, e in zip(c["ops"], trace)]
                if impl_trace != model_trace:
                    rep.oblige("correspondence:views-model", False,
                               f"answers / snapshots of the derived diagrams differ from the model: impl={impl_trace} model={model_trace} on {c['decls']} {c['classes']} {c['ops']}")
    # classification of the generated fields against the Spec
    items = list(kind_exprs.values())
    if items:
        svals = core.coq_values(RUN, HEADER_SPEC, [f"spec_kind_sx {ty_coq(rt, c['ids'])}" for rt, _, c, _ in items],
                                chunk=400, tag=tag + "_kinds")
        for (rt, pv, c, fk), sv in zip(items, svals):
            if stream_of(c) == "namesake_missing":
                pv, sv = pv[:8], sv[:8]   # which namesake a retried name denotes is the edges comparison (open findings C17-e/f)
            if pv != sv:
                rep.violation({"kind": "counterexample", "part": "classification", "field": fk, "annotation": ty_py(rt, False),
                               "impl": dict(zip(PRED_NAMES[:9], pv)), "spec": dict(zip(PRED_NAMES[:9], sv)),
                               "case": {k: c[k] for k in ("decls", "classes", "variant")}, "python": snippet(c)})
        dist["fields_classified"] = len(items)
    dist["suppressed_repeats"] = {k: n for k, n in seen_parts.items() if n > (4 if k.startswith("v:") else 1)}
    return dist


def predict_missing_namesake(case, spec) -> Any:
    """What the recorded defect C17-e/f does to the Spec's graph (the harness twin of Diagram.shadow / sh_of, used only when the
    Coq model is not available): for a diagram class c whose module lacks a name N (hidden), every leaf of c's own and inherited
    fields whose class has the __name__ of N denotes the LAST diagram class of that __name__."""
    ids, decls = case["ids"], {d["name"]: d for d in case["decls"]}
    py = {n: d.get("pyname", n) for n, d in decls.items()}
    nodes = list(case["classes"])
    edges = [e for e in spec[1][1] if e[0] == 0]
    for c in nodes:
        chain, k = [], c
        while k is not None:
            chain.append(k)
            k = decls[k]["bases"][0] if decls[k]["bases"] else None
        missing = {py[leaf[1]] for k in chain for f in decls[k]["fields"] for leaf in [_leaf(tt(f["ann"]))]
                   if leaf[0] == "F" and leaf[1] in decls[k].get("hidden", [])}
        for k in chain:
            for f in decls[k]["fields"]:
                if f["name"].startswith("_"):
                    continue
                leaf = _leaf(tt(f["ann"]))
                if leaf[0] not in ("C", "E", "F"):
                    continue
                target = leaf[1]
                if py[target] in missing:
                    same = [n for n in nodes if py[n] == py[target]]
                    target = same[-1] if same else target
                if target in nodes:
                    edges.append([1, ids[c], ids[target], ids[f["name"]]])
    return [0, [[ids[n] for n in nodes], sorted(edges)]]


def classify_unsupported_diff(case, impl, pyspec) -> str:
    """Which listed class explains impl != independent reading on a case with documented-unsupported annotations."""
    if impl[0] != 0:
        return "other"
    missing = [e for e in pyspec[1][1] if e not in impl[1][1]]
    extra = [e for e in impl[1][1] if e not in pyspec[1][1]]
    if extra or impl[1][0] != pyspec[1][0]:
        return "other"
    inv = {v: k for k, v in case["ids"].items()}
    anns = {f["name"]: tt(f["ann"]) for d in case["decls"] for f in d["fields"]}
    if all(anns[inv[e[3]]][0] == "OL" for e in missing):
        return "K_union_none_first"
    if all(anns[inv[e[3]]][0] == "P" for e in missing):
        return "K_pep604"
    return "other"


# ---------------------------------------------------------------------------------------- corpus / findings
def load_corpus() -> List[Tuple[str, dict]]:
    d = core.VERIF / "corpus" / PROP
    out = []
    if d.is_dir():
        for f in sorted(d.glob("*.json")):
            out.append((f.name, json.loads(f.read_text())))
    return out


def replay_finding(rep, f, model_ok: bool) -> None:
    w = json.loads((core.VERIF / f.witness).read_text())
    case = finish_case(dict(w["case"]))
    r = run_worker_batch([case], "kf_" + f.cls)[0]
    v = core.coq_values(RUN, HEADER if model_ok else HEADER_SPEC, [case_coq(case, model_ok)], tag="kf_" + f.cls)[0]
    impl = r.get("build")
    pyspec = [0, r.get("pyspec")]
    model = v[2][0] if model_ok else None
    if f.cls == "K_parallel_ancestors":
        trace = r.get("trace") or []
        ok_trace = impl is not None and impl[0] == 0 and len(trace) == len(case["ops"]) and not any(s and s[0] == "error" for s in trace)
        wrong = [(op, e[0]) for op, e in zip(case["ops"], trace) if ok_trace and op[0] == "query" and op[2][0] == "ancestors"
                 and e[0] != expected_answer(e[1][op[1]], op[2], case["ids"])]
        as_model = model_ok and ok_trace and all([e[0][0]] == m for op, e, m in zip(case["ops"], trace, v[2][1])
                                                 if op[0] == "query" and op[2][0] == "ancestors")
        if f.kind == "open":
            if wrong and (as_model or not model_ok):
                rep.known(f)
            elif ok_trace and not wrong:
                rep.note(f"{f.fid}: witness no longer fails (finding appears repaired)")
            else:
                rep.violation({"kind": "counterexample", "part": "views", "case": w["case"], "impl": trace, "python": snippet(case),
                               "explanation": f"witness of {f.fid} fails differently from what the faithful model predicts"})
        elif wrong or not ok_trace:
            rep.violation({"kind": "counterexample", "part": "views", "regression_of": f.fid, "case": w["case"], "impl": trace,
                           "python": snippet(case)})
        return
    if f.cls == "K_subdiagram_shallow":
        trace = r.get("trace") or []
        broken = impl is None or impl[0] != 0 or len(trace) != len(case["ops"]) or any(s and s[0] == "error" for s in trace) \
            or any(s[1][0] != impl[1] for s in trace)
        removed = bool(trace) and not broken and trace[-1][1][-1] != trace[-1][1][0]
        if not broken:
            for op, (ans, snaps) in zip(case["ops"], trace):
                # every query on the source must answer what the source's graph says
                if op[0] == "query" and op[1] == 0 and ans != expected_answer(snaps[0], op[2], case["ids"]):
                    broken = True
        if f.kind == "fixed":
            if broken or not removed:
                rep.violation({"kind": "counterexample", "part": "views", "regression_of": f.fid, "case": w["case"], "impl": trace,
                               "spec": impl, "python": snippet(case),
                               "explanation": "the witness of a repaired finding fails again (source changed, or the view no longer drops the inherited edge)"})
            return
    if f.cls in ("K_union_none_first", "K_two_unresolved", "K_namesake_retry", "K_missing_namesake", "K_pep604"):
        still = impl != pyspec and (not model_ok or impl == model)
        if f.kind == "open":
            if still:
                rep.known(f)
            elif impl == pyspec:
                rep.note(f"{f.fid}: witness no longer fails (finding appears repaired)")
            else:
                rep.violation({"kind": "counterexample", "part": "edges", "case": w["case"], "impl": impl, "spec": pyspec,
                               "model": model, "python": snippet(case),
                               "explanation": f"witness of {f.fid} fails differently from what the faithful model predicts"})
        elif impl != pyspec:
            rep.violation({"kind": "counterexample", "part": "edges", "regression_of": f.fid, "case": w["case"], "impl": impl,
                           "spec": pyspec, "python": snippet(case)})
        return
    rep.note(f"finding {f.fid}: unknown class {f.cls}")


# ---------------------------------------------------------------------------------------- entry
def run(tier: str, seed: int, replay=None) -> int:
    import shutil
    try:
        return _run(tier, seed, replay)
    finally:
        shutil.rmtree(SCRATCH, ignore_errors=True)


def _run(tier: str, seed: int, replay=None) -> int:
    from translator import t_fieldkind
    rep = core.Report(PROP, tier, seed, "proof")
    rep.trusted = core.COQ_TRUSTED + [
        "translator/t_fieldkind.py (fail-closed ast translator: wrapped_field.py, utils.py -> Gen/FieldKind.v) and its idiom table "
        "Diagram/Ty.v (get_origin/get_args/issubclass(_, Enum)/hasattr(_, '__iter__')/__module__ on the annotation grammar), validated each run on all annotations to depth 2",
        "hand-written model of ClassDiagram.__post_init__, dataclasses.fields inheritance, get_type_hints name resolution (Diagram/Diagram.v) and of "
        "to_subdiagram_without_inherited_associations over a heap of graphs (Diagram/SubDiagram.v), tied by differential execution",
        "harness/c17.py: program generator/renderer, snapshotting, the independent get_type_hints reading",
        "source pins, set 'diagram' (pins/sets/diagram.json, recorded in pins/diagram.json): the 30 methods of class_diagram.py, wrapped_field.py (resolved_type and its retry) "
        "and attribute_introspector.py that the hand-written models mirror; an edit to any of them reopens the correspondence obligation",
        "modelled, not verified: rustworkx PyDiGraph (parallel edges; get_edge_data/remove_edge act on the most recently added edge; copy() is deep for the structure), "
        "typing.get_type_hints, dataclasses.fields, copy.copy",
    ]
    rep.assume = ["annotations are in typing's normal form (nested unions flattened by typing before krrood sees them)",
                  "class and field names are unique per program in the proved fragment (no field overriding); programs declare bases before subclasses (Python requires it)"]
    rep.rule = ("(1) classification: every annotation built from 17 leaves and 9 wrappers up to depth 2 (typing normal form), all 13 predicates, impl vs generated Gallina vs Spec; "
                "(2) seeded random dataclass programs (2-6 dataclasses, 0-2 enums, 0-1 plain class, single/multiple inheritance up to 3+ levels, forward references quoted at the leaf / "
                "whole-string / from __future__ import annotations, random class subset in random order, 0-6 read-only operations on the diagram and its derived views -- sub-diagram derivations, shallow copies, queries whose ANSWERS are recorded; the same query on a view and on its source in both orders; a final sweep asking every object, views first and the source last, for the out-edges of every class), "
                "each in a fresh forked process; distinct = distinct (program, class list, ops, variant); non-trivial = the diagram has at least one edge")
    ok_spec, log = core.coq_make(["Base/Sx.vo", "Diagram/FieldKindSpec.vo", "Diagram/DiagramSpec.vo"])
    rep.oblige("build:spec", ok_spec, "" if ok_spec else core.first_error(log))
    model_ok = core.standard_proof_steps(
        rep, PROP, ["Props/C17.vo"],
        regen=[("Gen/FieldKind.v", lambda: t_fieldkind.translate(str(core.REPO)), core.COQ / "Gen" / "FieldKind.v")])
    if not model_ok:
        rep.note("model not available; comparing the implementation with the Spec only (search for a failing input)")
    from translator import pins
    pins.oblige(rep, str(core.REPO), "diagram", "the hand-written model Diagram/Diagram.v + Diagram/SubDiagram.v")
    findings = core.load_findings(PROP)
    kf_open = {f.cls for f in findings if f.kind == "open"}
    if tier == "thorough" and model_ok and replay is None:
        rc, out = core.sh(["timeout", "900", "coqchk", "-silent", "-o", "-Q", ".", "Krrood", "Krrood.Props.C17"], cwd=core.COQ, timeout=930)
        rep.oblige("coqchk:Props/C17.vo", rc == 0 and "Axioms: <none>" in out.replace("\n", " ").replace("  ", " "), out[-400:])

    if replay is not None:
        case = replay.get("case") or {}
        if "decls" in case:
            c = finish_case(dict(case, kind="diagram", ops=case.get("ops", []), variant=case.get("variant", "leaf")))  # layout travels in the case
            rep.extra["distribution"] = check_diagrams(rep, [c], model_ok, kf_open, tag="replay")
        else:
            rep.extra["classification"] = check_classification(rep, model_ok, kf_open)
        return rep.finish()

    t0 = time.time()
    rep.extra["classification"] = check_classification(rep, model_ok, kf_open, depth=2 if tier == "quick" else 3)
    rep.extra["classification"]["depth"] = 2 if tier == "quick" else 3
    rep.extra["classification"]["wall_s"] = round(time.time() - t0, 1)

    # corpus first
    corpus = [(n, w) for n, w in load_corpus()]
    corpus_cases = [finish_case(dict(w["case"])) for n, w in corpus if not n.startswith("kf_")]
    rng = core.Rng(seed)
    n_f, n_sh, n_ov, n_un, n_tc, n_lo, n_lm, n_rb, n_ns, n_nt, n_nm = ((150, 30, 20, 40, 40, 50, 15, 40, 40, 25, 40) if tier == "quick"
                                                                         else (4000, 700, 400, 700, 700, 900, 250, 700, 700, 400, 500))
    cases = list(corpus_cases)
    for stream, n in (("F", n_f), ("shared", n_sh), ("override", n_ov), ("unsupported", n_un), ("typecheck", n_tc),
                      ("local", n_lo), ("local_missing", n_lm), ("rebuild", n_rb), ("namesake", n_ns), ("namesake_tc", n_nt), ("namesake_missing", n_nm)):
        r = rng.fork({"F": 1, "shared": 2, "override": 3, "unsupported": 4, "typecheck": 5, "local": 6, "local_missing": 7, "rebuild": 8, "namesake": 9, "namesake_tc": 10, "namesake_missing": 11}[stream])
        for _ in range(n):
            cases.append(gen_namesake_missing(r) if stream == "namesake_missing" else
                         gen_namesake(r, stream) if stream.startswith("namesake") else gen_program(r, stream))
    t1 = time.time()
    dist = check_diagrams(rep, cases, model_ok, kf_open)
    dist["wall_s"] = round(time.time() - t1, 1)
    rep.extra["distribution"] = dist
    rep.samples = [{"decls": c["decls"], "classes": c["classes"], "ops": c["ops"], "variant": c["variant"]} for c in cases[:3]]
    for f in findings:
        try:
            replay_finding(rep, f, model_ok)
        except Exception as e:  # noqa
            rep.oblige(f"finding:{f.fid}", False, f"witness could not be replayed: {type(e).__name__}: {e}")
    return rep.finish()


if __name__ == "__main__":
    if len(sys.argv) >= 3 and sys.argv[1] == "--serve":
        serve(sys.argv[2], sys.argv[3:])
    else:
        sys.exit(run("quick", int(os.environ.get("VERIF_SEED", "0") or 0)))
