"""C11 -- pattern matching is equivalent to the explicit query it abbreviates.

Tie: translator (Gen/Match.v from match.py: the eight-way case split, the type filter, the flatten decision,
resolved-or-not, entity_matching) + correspondence of the hand-written model (Eql/Match.v: pattern -> conditions over
Attribute/Flatten nodes; evaluation of those conditions with bindings keyed by node, HasType, Exists, AND, Entity) with
the real engine through the public API  an(entity_matching(T, domain)(...)).evaluate()  on random patterns of depth <= 3
over harness-defined Symbol dataclasses (scalar attributes, one-to-one attributes, collection attributes of entities,
subclasses for type narrowing, value-equal twins).  Three opinions per case, compared as sets of identities:
implementation, model (vm_compute), Spec (vm_compute) -- plus a direct Python predicate as a fourth."""
from __future__ import annotations

import json
from dataclasses import dataclass, field
from enum import Enum
from typing import Any, Dict, List, Optional, Set

from . import core
from .core import Report

PROP = "C11"
HEADER = """From Coq Require Import List ZArith Bool.
From Krrood Require Import Base.Sx Eql.Syntax Eql.ShowSpec Eql.MatchSpec Eql.MatchSpecShow Eql.Match Eql.MatchFrag.
Import ListNotations. Open Scope Z_scope."""
HEADER_SPEC = """From Coq Require Import List ZArith Bool.
From Krrood Require Import Base.Sx Eql.Syntax Eql.ShowSpec Eql.MatchSpec Eql.MatchSpecShow.
Import ListNotations. Open Scope Z_scope."""

# ------------------------------------------------------------------ the classes under test (same shape as the dataset's
# Cabinet / Drawer / Handle / Container, plus a base-typed one-to-one attribute and a base-typed collection so that a nested
# match can narrow the type)
from krrood.entity_query_language.predicate import Symbol  # noqa: E402


class Status(str, Enum):            # a str-based enum whose values are in substring relation
    ACTIVE = "active"
    INACTIVE = "inactive"


@dataclass(unsafe_hash=True)
class Part(Symbol):
    name: str
    size: int = 1
    tag: int = field(default=1, compare=False)       # not part of == / hash: equal parts may differ in it
    status: Status = Status.ACTIVE
    codes: List[int] = field(default_factory=list, compare=False)     # a collection of builtin values (finding C11-h)


@dataclass(unsafe_hash=True)
class Knob(Part): ...


@dataclass(unsafe_hash=True)
class Box(Part): ...


@dataclass(unsafe_hash=True)
class BigBox(Box):
    depth: int = 1                                   # an attribute only the subtype has (finding C11-i)


@dataclass
class Unit(Symbol):
    knob: Knob
    box: Box
    part: Part
    parts: List[Part] = field(default_factory=list)
    opt: Optional[Part] = None                     # may be None (worlds of the None stream only)

    def __hash__(self):
        return hash((self.knob, self.box))

    def __eq__(self, o):          # ignores `parts`: two distinct units may be == and still hold different parts
        return isinstance(o, Unit) and self.knob == o.knob and self.box == o.box and self.part == o.part


@dataclass
class Label(Symbol):                                 # a plain dataclass: == by value, NOT hashable (finding C11-j)
    text: str


@dataclass
class Rack(Symbol):
    box: Box
    part: Part
    units: List[Unit] = field(default_factory=list)
    parts: List[Part] = field(default_factory=list)
    pset: Set[Part] = field(default_factory=set)   # a Set-typed collection attribute (pairwise unequal members)
    labels: List[Label] = field(default_factory=list)     # only used by the unhashable-elements stream

    def __hash__(self):
        return hash(self.box)

    def __eq__(self, o):
        return (isinstance(o, Rack) and self.box == o.box and self.part == o.part and self.units == o.units
                and self.parts == o.parts)


@dataclass(eq=False)
class WideRack(Rack):
    def __len__(self):                               # container-like: a wide rack without units is FALSY
        return len(self.units)

    def __hash__(self):
        return hash(self.box)

    def __eq__(self, o):
        return Rack.__eq__(self, o)


CLASSES = {"int": int, "str": str, "Part": Part, "Knob": Knob, "Box": Box, "BigBox": BigBox, "Unit": Unit,
           "Rack": Rack, "WideRack": WideRack, "Status": Status}
CID = {n: i + 1 for i, n in enumerate(CLASSES)}          # 0 = no class
OBJ_CLASSES = ["Part", "Knob", "Box", "BigBox", "Unit", "Rack", "WideRack"]
ATTR = {"name": 0, "size": 1, "knob": 2, "box": 3, "part": 4, "parts": 5, "units": 6, "tag": 7, "opt": 8, "pset": 9,
        "status": 10, "codes": 11, "depth": 12}
SCALARS = ("int", "str", "Status")
ENUM0 = 2000
ENUMS = ["ACTIVE", "INACTIVE"]
FIELDS = {"Part": ["name", "size", "tag", "status", "codes"], "BigBox": ["name", "size", "tag", "status", "codes", "depth"], "Unit": ["knob", "box", "part", "parts", "opt"], "Rack": ["box", "part", "units", "parts", "pset"]}
BASE = {"Knob": "Part", "Box": "Part", "WideRack": "Rack"}       # where the fields are declared
STR0 = 1000
STRS = ["n0", "n1", "n2"]


def fields_of(cname: str) -> List[str]:
    return FIELDS[BASE.get(cname, cname)]


def issub(c: str, d: str) -> bool:
    return issubclass(CLASSES[c], CLASSES[d])


_FIELD_TABLE: Optional[Dict[tuple, tuple]] = None
_OPTIONAL: Dict[tuple, bool] = {}          # (owner class, attribute) -> WrappedField.is_optional


def field_table() -> Dict[tuple, tuple]:
    """(owner class, attribute) -> (is_iterable, type endpoint) exactly as match.py reads them:
    Attribute._is_iterable_ and Attribute._type_ of  let(C, ...).<attr>  (read-only inspection of the real nodes)."""
    global _FIELD_TABLE
    if _FIELD_TABLE is None:
        from krrood.entity_query_language.entity import let
        from krrood.entity_query_language.symbol_graph import SymbolGraph
        SymbolGraph().clear()
        SymbolGraph()
        t = {}
        for cn in OBJ_CLASSES:
            x = let(CLASSES[cn], [])
            for a in fields_of(cn):
                node = getattr(x, a)
                ty = node._type_
                names = [n for n, c in CLASSES.items() if c is ty]
                if not node._wrapped_field_ or not names:
                    raise RuntimeError(f"field {cn}.{a}: no wrapped field / unknown endpoint {ty}")
                t[(cn, a)] = (bool(node._is_iterable_), names[0])
                _OPTIONAL[(cn, a)] = bool(node._wrapped_field_.is_optional)
        _FIELD_TABLE = t
    return _FIELD_TABLE


# ------------------------------------------------------------------ worlds
def gen_world(rng: core.Rng, nones: bool = False) -> List[dict]:
    objs: List[dict] = []
    knobs, boxes = [], []
    for _ in range(rng.randint(2, 3)):
        knobs.append(len(objs))
        objs.append({"cls": "Knob", "name": rng.choice(STRS[:2]), "size": rng.randint(1, 2), "tag": rng.randint(1, 2),
                     "status": rng.choice(ENUMS), "codes": rng.sample([1, 2, 3], rng.randint(0, 2))})
    for _ in range(rng.randint(2, 3)):
        boxes.append(len(objs))
        objs.append({"cls": rng.choice(["Box", "Box", "BigBox"]), "name": rng.choice(STRS[:2]), "size": rng.randint(1, 2),
                     "tag": rng.randint(1, 2), "status": rng.choice(ENUMS), "codes": rng.sample([1, 2, 3], rng.randint(0, 2)),
                     "depth": rng.randint(1, 2)})
    if rng.chance(0.3):
        boxes.append(len(objs))
        objs.append(dict(objs[boxes[0]], tag=rng.randint(1, 2)))      # value-equal twin of a box (tag may differ)
    parts = knobs + boxes
    units = []
    for _ in range(rng.randint(2, 4)):
        units.append(len(objs))
        objs.append({"cls": "Unit", "knob": rng.choice(knobs), "box": rng.choice(boxes), "part": rng.choice(parts),
                     "parts": rng.sample(parts, rng.randint(0, 3)),
                     "opt": None if (nones and rng.chance(0.5)) else rng.choice(parts)})
    if rng.chance(0.4):
        units.append(len(objs))
        # a twin of a unit under ==; half of the time it holds other parts (Unit.__eq__ ignores them)
        objs.append(dict(objs[units[0]], parts=rng.sample(parts, rng.randint(0, 3)) if rng.chance(0.5)
                         else list(objs[units[0]]["parts"])))
    racks = []
    for _ in range(rng.randint(3, 5)):
        racks.append(len(objs))
        pset, seen = [], set()
        for i in rng.sample(parts, rng.randint(0, 3)):         # members of a set: pairwise unequal under ==
            k = (objs[i]["cls"], objs[i]["name"], objs[i]["size"])
            if k not in seen:
                seen.add(k)
                pset.append(i)
        objs.append({"cls": rng.choice(["Rack", "Rack", "WideRack"]), "box": rng.choice(boxes), "part": rng.choice(parts),
                     "units": rng.sample(units, rng.randint(0, 3)), "parts": rng.sample(parts, rng.randint(0, 2)), "pset": pset})
    if rng.chance(0.5):
        r0 = objs[racks[0]]
        racks.append(len(objs))
        objs.append(dict(r0, units=list(r0["units"]), parts=list(r0["parts"]), pset=list(r0["pset"])))   # value-equal twin of a rack
    return objs


def build_world(objs: List[dict]) -> List[Any]:
    built: List[Any] = []
    for o in objs:
        c = CLASSES[o["cls"]]
        if issubclass(c, Part):
            x = c(o["name"], o["size"], o.get("tag", 1), Status[o.get("status", "ACTIVE")], list(o.get("codes", [])))
            if c is BigBox:
                x.depth = o.get("depth", 1)
            built.append(x)
        elif c is Unit:
            opt = o.get("opt", o["part"])
            built.append(Unit(built[o["knob"]], built[o["box"]], built[o["part"]], [built[i] for i in o["parts"]],
                              None if opt is None else built[opt]))
        else:
            built.append(c(built[o["box"]], built[o["part"]], [built[i] for i in o["units"]], [built[i] for i in o["parts"]],
                           {built[i] for i in o.get("pset", [])}))
    return built


def eq_keys(built: List[Any]) -> List[int]:
    """equality classes of the objects under their own == (the world's okey); checked to be an equivalence"""
    keys: List[int] = []
    for i, x in enumerate(built):
        k = i
        for j in range(i):
            if built[j] == x:
                k = keys[j]
                break
        keys.append(k)
    for i, x in enumerate(built):
        for j, y in enumerate(built):
            if (x == y) != (keys[i] == keys[j]):
                raise RuntimeError("== of the harness classes is not an equivalence")
    return keys


# ------------------------------------------------------------------ patterns
def gen_value(rng: core.Rng, objs: List[dict], kind: str):
    """kind: name | size | a class name (an object of that class)"""
    if kind == "Status":
        return ["e", rng.choice(ENUMS)]
    if kind == "str":
        return ["s", rng.choice(STRS if rng.chance(0.15) else STRS[:2])]
    if kind == "int":
        return ["i", rng.randint(1, 3 if rng.chance(0.15) else 2)]
    cands = [i for i, o in enumerate(objs) if issub(o["cls"], kind)]
    return ["o", rng.choice(cands)] if cands else ["o", 0]


def gen_list(rng: core.Rng, objs: List[dict], kind: str, lo: int, hi: int):
    n = rng.randint(lo, hi)
    if kind == "Status":
        return ["le", rng.sample(ENUMS, max(1, min(n, 2)))]
    if kind in ("str", "int"):
        vals = []
        for _ in range(n):
            v = gen_value(rng, objs, kind)[1]
            if v not in vals:
                vals.append(v)
        return ["ls" if kind == "str" else "li", vals]
    cands = [i for i, o in enumerate(objs) if issub(o["cls"], kind)]
    return ["lo", rng.sample(cands, min(n, len(cands)))]


def gen_type(rng: core.Rng, declared: str) -> Optional[str]:
    r = rng.random()
    if r < 0.45:
        return declared
    subs = [c for c in OBJ_CLASSES if c != declared and issub(c, declared)]
    sups = [c for c in OBJ_CLASSES if c != declared and issub(declared, c)]
    unrel = [c for c in OBJ_CLASSES if not issub(c, declared) and not issub(declared, c) and fields_of(c) == fields_of(declared)]
    if r < 0.75 and subs:
        return rng.choice(subs)
    if r < 0.85 and sups:
        return rng.choice(sups)
    if r < 0.90:
        return None
    if r < 0.94 and unrel:
        return rng.choice(unrel)
    return declared


def gen_alist(rng: core.Rng, objs: List[dict], cname: str, depth: int, wild: bool, sel: bool = False) -> list:
    ft = field_table()
    fs = [f for f in fields_of(cname) if f != "codes" or rng.chance(0.25)]     # builtin collection (finding C11-h): rarely
    rng.shuffle(fs)
    k = rng.choice([0, 1, 1, 1, 2, 2, 3]) if depth > 1 else rng.choice([1, 1, 2])
    out = []
    for a in fs[:k]:
        it, end = ft[(cname, a)]
        r = rng.random()
        if end in SCALARS:
            if r < 0.75:
                ap = ["lit", gen_value(rng, objs, end)]
            elif r < 0.9:
                ap = ["any", gen_list(rng, objs, end, 1, 2)]
            elif wild and r < 0.95:
                ap = ["lit", gen_list(rng, objs, end, 0, 2)]          # in_: outside the statement's vocabulary
            elif wild:
                ap = ["all", gen_list(rng, objs, end, 1, 2)]          # match_all on a scalar: likewise
            else:
                ap = ["lit", gen_value(rng, objs, end)]
        elif not it:
            if r < 0.25 or depth <= 1:
                ap = ["lit", gen_value(rng, objs, end)]
            elif r < 0.9:
                ap = ["match", gen_type(rng, end), None, "any" if rng.chance(0.1) else "match"]
            elif r < 0.96:
                ap = ["any", gen_list(rng, objs, end, 1, 2)]
            elif wild:
                ap = ["lit", gen_list(rng, objs, end, 0, 2)]
            else:
                ap = ["lit", gen_value(rng, objs, end)]
        else:
            if r < 0.12:
                ap = ["lit", gen_value(rng, objs, end)]
            elif r < 0.22:
                ap = ["lit", gen_list(rng, objs, end, 0 if wild else 1, 2)]
            elif r < 0.42:
                ap = ["any", gen_list(rng, objs, end, 0 if (wild and rng.chance(0.15)) else 1, 3)]
            elif r < 0.60 or depth <= 1:
                ap = ["all", gen_list(rng, objs, end, 0 if (wild and rng.chance(0.15)) else 1, 3)]
            else:
                ap = ["match", gen_type(rng, end), None, "any" if rng.chance(0.1) else "match"]
        if sel and ap[0] == "match" and rng.chance(0.2):
            ap[3] = "select_any" if ap[3] == "any" else "select"
        if sel and ap[0] in ("any", "all") and rng.chance(0.12):
            ap[0] = "sel_" + ap[0]
        if ap[0] == "match":
            ap[2] = gen_alist(rng, objs, end, depth - 1, wild, sel)
            if ap[1] == "BigBox" and end != "BigBox" and rng.chance(0.3):
                ap[2] = ap[2] + [["depth", ["lit", ["i", rng.randint(1, 2)]]]]     # an attribute only the subtype has
            if ap[2] == [] and not wild and it and not (ap[1] and not issub(end, ap[1])):
                ap[2] = gen_alist(rng, objs, end, 1, wild, sel)
        out.append([a, ap])
    return out


# ------------------------------------------------------------------ case -> Gallina
def val_term(v) -> str:
    k, x = v
    if k == "i":
        return f"(VI {core.zlit(x)})"
    if k == "s":
        return f"(VI {STR0 + STRS.index(x)})"
    if k == "e":
        return f"(VI {ENUM0 + ENUMS.index(x)})"
    if k == "le":
        return f"(VLI {core.zlist(ENUM0 + ENUMS.index(s) for s in x)})"
    if k == "o":
        return f"(VO {x + 1})"
    if k == "li":
        return f"(VLI {core.zlist(x)})"
    if k == "ls":
        return f"(VLI {core.zlist(STR0 + STRS.index(s) for s in x)})"
    if k == "lo":
        return f"(VLO {core.zlist(i + 1 for i in x)})"
    raise ValueError(v)


def alist_term(al) -> str:
    out = "ANil"
    for a, ap in reversed(al):
        out = f"(ACons {ATTR[a]} {apat_term(ap)} {out})"
    return out


def apat_term(ap) -> str:
    if ap[0] == "lit":
        return f"(PLit {val_term(ap[1])})"
    if ap[0] == "any":
        return f"(PAny {val_term(ap[1])})"
    if ap[0] == "all":
        return f"(PAll {val_term(ap[1])})"
    if ap[0] == "var":
        return f"(PVar {val_term(ap[2])})"
    if ap[0] == "sel_any":
        return f"(PSel (PAny {val_term(ap[1])}))"
    if ap[0] == "sel_all":
        return f"(PSel (PAll {val_term(ap[1])}))"
    t = f"(Some {CID[ap[1]]}%nat)" if ap[1] else "None"
    m = f"(PMatch (Pat {t} {alist_term(ap[2])}))"
    return f"(PSel {m})" if ap[3] in ("select", "select_any") else m


def case_term(d: dict, keys: List[int]) -> str:
    ft = field_table()
    objs = d["objs"]
    wrows, trows = [], []
    for i, o in enumerate(objs):
        attrs = []
        for a in fields_of(o["cls"]):
            v = o.get(a, 1) if a in ("tag", "depth") else o.get("status", "ACTIVE") if a == "status" else o.get("codes", []) if a == "codes" else (o.get("opt", o["part"]) if a == "opt" else (o.get("pset", []) if a == "pset" else o[a]))
            if a == "name":
                t = f"VI {STR0 + STRS.index(v)}"
            elif a == "status":
                t = f"VI {ENUM0 + ENUMS.index(v)}"
            elif a == "codes":
                t = f"VLI {core.zlist(v)}"
            elif a in ("size", "tag", "depth"):
                t = f"VI {v}"
            elif v is None:
                t = "VO 0"                                   # None
            elif isinstance(v, list):
                t = f"VLO {core.zlist(j + 1 for j in v)}"
            else:
                t = f"VO {v + 1}"
            attrs.append(f"({ATTR[a]}%nat, {t})")
        wrows.append(f"({i + 1}, {keys[i] + 1}, [{'; '.join(attrs)}])")
        trows.append(f"({i + 1}, {CID[o['cls']]}%nat)")
    subs = "; ".join(f"({CID[c]}, {CID[e]})%nat" for c in CLASSES for e in CLASSES if issub(c, e))
    flds = "; ".join(f"({CID[c]}, {ATTR[a]}, {'true' if it else 'false'}, {CID[e]})%nat" for (c, a), (it, e) in sorted(ft.items()))
    return ("{| c_world := [%s]; c_types := [%s]; c_sub := [%s]; c_fields := [%s]; c_opt := [%s]%%nat; c_bcoll := [%s]%%nat; c_objcls := [%s]%%nat; c_rootsel := %s; c_T := %d%%nat; "
            "c_pat := %s; c_dom := %s |}") % (
        "; ".join(wrows), "; ".join(trows), subs, flds,
        "; ".join(f"({CID[c]}, {ATTR[a]})" for (c, a), o in sorted(_OPTIONAL.items()) if o),
        "; ".join(f"({CID[c]}, {ATTR[a]})" for (c, a) in sorted(ft) if a == "codes"),
        "; ".join(str(CID[c]) for c in OBJ_CLASSES),
        "true" if d.get("rootsel") else "false", CID[d["T"]],
        alist_term(d["pat"]), core.zlist(i + 1 for i in d["dom"]))


# ------------------------------------------------------------------ implementation side
def py_value(v, built):
    k, x = v
    if k in ("i", "s"):
        return x
    if k == "e":
        return Status[x]
    if k == "le":
        return [Status[y] for y in x]
    if k == "o":
        return built[x]
    if k in ("li", "ls"):
        return list(x)
    return [built[i] for i in x]


def build_kwargs(al, built, live=None, setlit=None, handles=None):
    """live: None, or a list collecting (list object, final contents): every value list is then handed over with OTHER
    contents (empty, or the final ones reversed without the first) and set to the final contents only after the query is built"""
    from krrood.entity_query_language.match import match, match_any, match_all, select, select_any, select_all

    def value(v):
        x = py_value(v, built)
        if setlit and v[0] == "lo":
            return {"set": set, "frozenset": frozenset, "tuple": tuple}[setlit](x)
        if live is not None and isinstance(x, list):
            init = [] if len(live) % 2 == 0 else list(reversed(x))[1:]
            live.append((init, x))
            return init
        return x
    kw = {}
    for a, ap in al:
        if ap[0] == "lit":
            kw[a] = value(ap[1])
        elif ap[0] == "any":
            kw[a] = match_any(value(ap[1]))
        elif ap[0] == "all":
            kw[a] = match_all(value(ap[1]))
        elif ap[0] == "sel_any":
            kw[a] = select_any(value(ap[1]))
        elif ap[0] == "sel_all":
            kw[a] = select_all(value(ap[1]))
        elif ap[0] == "var":
            from krrood.entity_query_language.entity import let
            kw[a] = let(CLASSES[ap[1]], py_value(ap[2], built))
        else:
            ctor = {"any": match_any, "match": match, "select": select, "select_any": select_any}[ap[3]]
            t = CLASSES[ap[1]] if ap[1] else None
            m = ctor(t) if t is not None else ctor()
            if handles is not None and ap[3] in ("select", "select_any"):
                handles.append(m)
            kw[a] = m(**build_kwargs(ap[2], built, live, setlit, handles))
    return kw


def run_impl(d: dict):
    """-> (outcome, keys): outcome = sorted identities of the returned elements | [-1, code] for an exception"""
    from krrood.entity_query_language.symbol_graph import SymbolGraph
    from krrood.entity_query_language.match import entity_matching
    from krrood.entity_query_language.quantify_entity import an
    field_table()
    if d.get("nodomain"):
        # no explicit domain: the root ranges over the live instances of T in the symbol graph -- start from an empty graph
        SymbolGraph().clear()
        SymbolGraph()
    built = build_world(d["objs"])
    keys = eq_keys(built)
    index = {id(x): i for i, x in enumerate(built)}
    def canon(v):
        if v is None:
            return [1, 0]
        if isinstance(v, bool):
            return [9, 0]
        if isinstance(v, Status):
            return [0, ENUM0 + ENUMS.index(v.name)]
        if isinstance(v, int):
            return [0, v]
        if isinstance(v, str):
            return [0, STR0 + STRS.index(v)]
        if isinstance(v, list) and v and all(isinstance(x, int) for x in v):
            return [2, list(v)]
        if isinstance(v, (list, set, frozenset, tuple)):
            return [3, sorted(index.get(id(x), -1) + 1 for x in v)]
        return [1, index.get(id(v), -1) + 1]
    try:
        from krrood.entity_query_language.match import entity_selection
        from krrood.entity_query_language.symbolic import UnificationDict
        ctor = entity_selection if d.get("rootsel") else entity_matching
        live = [] if d.get("live") else None
        handles = []
        q = an(ctor(CLASSES[d["T"]], None if d.get("nodomain") else [built[i] for i in d["dom"]])(**build_kwargs(d["pat"], built, live, d.get("setlit"), handles)))
        if d.get("live") == 2:
            list(q.evaluate())                   # a first evaluation over the initial contents
        for lst, final in (live or []):
            lst[:] = final                       # the caller changes the lists it handed over (the explicit query sees them live)
        res = list(q.evaluate())
        selected = list(q._child_.selected_variables)
        rows = []
        handle_bad = 0
        for r in res:
            if isinstance(r, UnificationDict):
                rows.append([canon(r.data[v].value) for v in selected])
                for h in handles:        # row[select handle] must be the matched element: the value of the variable the select was resolved on
                    if h.variable in r.data and r[h] is not r.data[h.variable].value:
                        handle_bad += 1
            else:
                rows.append([canon(r)])
        if d.get("rootsel") or not has_sel(d["pat"]):
            ids = [row[0][1] for row in rows]              # the root element is the first column
            out = [sorted(set(ids)), len(ids), rows, handle_bad]
        else:
            out = [None, len(rows), rows, handle_bad]
    except Exception as e:  # noqa
        out = [-1, sum(map(ord, type(e).__name__))]
    return out, keys, built


def py_spec(d: dict, built) -> List[int]:
    """the direct Python predicate (fourth opinion): the reading of DESIGN section 6 written over the live objects"""
    def elems(v):
        return list(v) if isinstance(v, (list, set)) else [v]

    def mem(x, l):
        return any(x == y for y in l)

    def ok_attr(ap, v):
        if ap[0] == "lit":
            lit = ap[1]
            return any(mem(x, elems(lit)) for x in v) if isinstance(v, (list, set)) else v == lit
        if ap[0] in ("any", "sel_any"):
            return any(mem(x, elems(ap[1])) for x in elems(v))
        if ap[0] in ("all", "sel_all"):
            return all(mem(x, elems(ap[1])) for x in elems(v)) and all(mem(y, elems(v)) for y in elems(ap[1]))
        if ap[0] == "var":      # a let-variable as value: the attribute equals / has a member equal to SOME value of its domain
            return any(mem(x, ap[2]) for x in elems(v))
        one = lambda o: (ap[1] is None or isinstance(o, CLASSES[ap[1]])) and ok_alist(ap[2], o)
        return any(one(o) for o in v) if isinstance(v, (list, set)) else one(v)

    def ok_alist(al, o):
        return all(ok_attr(conv(ap), getattr(o, a)) for a, ap in al)

    def conv(ap):
        if ap[0] == "var":
            return [ap[0], ap[1], py_value(ap[2], built)]
        return [ap[0], py_value(ap[1], built)] if ap[0] in ("lit", "any", "all", "sel_any", "sel_all") else ap

    T = CLASSES[d["T"]]
    return sorted({i + 1 for i in d["dom"] if isinstance(built[i], T) and ok_alist(d["pat"], built[i])})


# ------------------------------------------------------------------ classification of a pattern (for known findings)
def classify(d: dict) -> Dict[str, int]:
    """which excluded classes a pattern falls in (mirrors F11 of Eql/MatchFrag.v; used only to match known findings)"""
    ft = field_table()
    cl: Dict[str, int] = {}

    def hit(k):
        cl[k] = cl.get(k, 0) + 1

    def tfilter(T, end, opt=False):          # is_type_filter_needed (since a8e94bb / 5008deb)
        return opt or (bool(T) and not issub(end, T))

    def first_cond(al, cname):
        """kind of the first condition the alist emits: None | 'exists' | 'other'"""
        for a, ap in al:
            if (cname, a) not in ft:
                return "other"
            it, end = ft[(cname, a)]
            if ap[0] in ("lit", "var"):
                return "other"
            if ap[0] in ("any", "all", "sel_any", "sel_all"):
                return "exists" if ap[0] in ("any", "sel_any") else "other"
            if tfilter(ap[1], end, _OPTIONAL.get((cname, a), False)):
                return "other"
            f = first_cond(ap[2], end)
            if f:
                return f
        return None

    def walk(al, cname):
        for a, ap in al:
            if (cname, a) not in ft:
                hit("K_subattr")            # not a field of the DECLARED class (only of the matched subtype)
                continue
            it, end = ft[(cname, a)]
            if ap[0] == "lit":
                if a == "codes":
                    hit("K_builtincoll")
                elif not it and ap[1][0] in ("li", "ls", "lo", "le"):
                    hit("U_in")
                if it and ap[1][0] in ("li", "ls", "lo") and not ap[1][1]:
                    pass
            elif ap[0] == "var":
                hit("K_letvalue")
            elif ap[0] in ("any", "all", "sel_any", "sel_all"):
                if not ap[1][1]:
                    hit("K_emptylist")
                elif a == "codes":
                    hit("K_builtincoll")
                elif ap[0] in ("all", "sel_all") and not it:
                    hit("U_all_scalar")
            else:
                T = ap[1]
                if a == "opt" and any(o.get("opt", 0) is None for o in d["objs"] if o["cls"] == "Unit"):
                    hit("K_nonevalue")      # repaired (5008deb): counted, never tolerated
                if T and not issub(T, end) and not issub(end, T):
                    hit("K_unrelated")
                if it and not tfilter(T, end, _OPTIONAL.get((cname, a), False)):
                    f = first_cond(ap[2], end)
                    if f is None:
                        hit("K_emptynested")
                    elif f == "exists":
                        hit("K_existsfirst")
                walk(ap[2], end)
    walk(d["pat"], d["T"])
    return cl


def kinds(al, out=None, depth=1):
    out = out if out is not None else {}
    for a, ap in al:
        k = ap[0] if ap[0] != "match" else ("nested_" + ap[3])
        out[k] = out.get(k, 0) + 1
        out["depth"] = max(out.get("depth", 0), depth)
        if ap[0] == "match":
            kinds(ap[2], out, depth + 1)
    return out


# ------------------------------------------------------------------ cases
def gen_cases(tier: str, seed: int) -> List[dict]:
    n = 3000 if tier == "quick" else 12000
    rng = core.Rng(seed).fork(11)
    out = []
    for i in range(n):
        r = rng.fork(i)
        objs = gen_world(r)
        T = r.choice(["Rack", "Rack", "Rack", "Rack", "WideRack", "Unit"])
        wild = r.chance(0.35)
        sel = r.chance(0.35)
        pat = gen_alist(r, objs, T, 3, wild, sel)
        dom = list(range(len(objs)))
        r.shuffle(dom)
        if r.chance(0.3):
            dom = dom[: max(1, len(dom) - 3)]
        case = {"objs": objs, "T": T, "pat": pat, "dom": dom, "rootsel": bool(sel and r.chance(0.4))}
        if r.chance(0.08):
            case["nodomain"] = True               # entity_matching(T, None): all live instances of T (falsy ones included)
            case["dom"] = list(range(len(objs)))
        if r.chance(0.2):
            case["setlit"] = r.choice(["set", "frozenset", "tuple"])      # object value lists handed over as set / frozenset / tuple
        elif not wild and r.chance(0.25):
            case["live"] = r.choice([1, 1, 2])   # value lists filled / changed after the pattern is built (2: between two evaluations)
        out.append(case)
    return out


def gen_directed(tier: str, seed: int) -> List[dict]:
    """directed cases: a nested match on a collection whose first keyword is a match_any that SEVERAL members witness and
    whose second keyword only a LATER member satisfies (optionally a twin under == of an earlier member), with the root
    keyword written before or after the nested one"""
    ft = field_table()
    rng = core.Rng(seed).fork(1112)
    out = []
    tries = 0
    want = 250 if tier == "quick" else 1500
    while len(out) < want and tries < want * 20:
        tries += 1
        r = rng.fork(tries)
        objs = gen_world(r)
        racks = [i for i, o in enumerate(objs) if o["cls"] in ("Rack", "WideRack") and len(o["units"]) >= 2]
        if not racks:
            continue
        ri = r.choice(racks)
        us = objs[ri]["units"]
        j = r.randint(1, len(us) - 1)
        ut, u0 = objs[us[j]], objs[us[0]]
        # second keyword: true of the target unit, false of the first one
        second = None
        for a in r.sample(["box", "knob", "part", "parts"], 4):
            if a == "parts":
                extra = [x for x in ut["parts"] if x not in u0["parts"]]
                if extra:
                    second = ["parts", ["lit", ["o", r.choice(extra)]]]
            elif ut[a] != u0[a]:
                second = [a, ["lit", ["o", ut[a]]]]
            if second:
                break
        if not second:
            continue
        # first keyword: a match_any both units witness
        firsts = []
        for a in ("knob", "box", "part"):
            if a != second[0]:
                firsts.append([a, ["any", ["lo", sorted({ut[a], u0[a]})]]])
        common = [x for x in ut["parts"] if x in u0["parts"]]
        if common and second[0] != "parts":
            firsts.append(["parts", ["any", ["lo", [r.choice(common)]]]])
        if common and second[0] != "parts" and r.chance(0.5):
            # two collection levels with match_any at the bottom, witnessed by a part both units hold
            cp = objs[r.choice(common)]
            bottom = r.choice([["name", ["any", ["ls", [cp["name"]]]]], ["size", ["any", ["li", [cp["size"]]]]], ["tag", ["any", ["li", [cp.get("tag", 1)]]]]])
            firsts = [["parts", ["match", r.choice(["Part", None]), [bottom], "match"]]]
        if not firsts:
            continue
        first = r.choice(firsts)
        inner = [first, second] if r.chance(0.8) else [second, first]
        nested = ["units", ["match", r.choice(["Unit", "Unit", None]), inner, "select" if r.chance(0.3) else "match"]]
        rootkw = ["box", ["lit", ["o", objs[ri]["box"]]]] if r.chance(0.5) else ["part", ["match", "Part", [["name", ["lit", ["s", objs[objs[ri]["part"]]["name"]]]]], "match"]]
        k = r.randint(0, 2)
        pat = [nested] if k == 0 else ([rootkw, nested] if k == 1 else [nested, rootkw])
        out.append({"objs": objs, "T": "Rack", "pat": pat, "dom": list(range(len(objs))), "rootsel": r.chance(0.3)})
    return out


def snippet(d: dict) -> str:
    return ("import json; from harness import c11; d = json.loads(%r); out, keys, built = c11.run_impl(d); "
            "print('returned', out, 'expected', c11.py_spec(d, built))") % json.dumps(d)


def has_sel(al) -> bool:
    return any(ap[0] in ("sel_any", "sel_all") or (ap[0] == "match" and (ap[3] in ("select", "select_any") or has_sel(ap[2])))
               for _, ap in al)


def sel_on_collection(al, cname) -> bool:
    """a select(...) / select_any(T)(...) written on a collection attribute (resolved on the Flatten node)"""
    ft = field_table()
    for a, ap in al:
        if ap[0] == "match" and (cname, a) in ft:
            it, end = ft[(cname, a)]
            if (it and ap[3] in ("select", "select_any")) or sel_on_collection(ap[2], end):
                return True
    return False


def has_var(al) -> bool:
    return any(ap[0] == "var" or (ap[0] == "match" and has_var(ap[2])) for _, ap in al)


def gen_letvalue_cases(tier: str, seed: int) -> List[dict]:
    """keywords whose value is a let-variable over an explicit domain (match(variable) forms): not modelled in Coq,
    compared implementation vs the direct Python predicate only"""
    ft = field_table()
    rng = core.Rng(seed).fork(1111)
    out = []
    for i in range(120 if tier == "quick" else 600):
        r = rng.fork(i)
        objs = gen_world(r)
        T = r.choice(["Rack", "Rack", "Unit"])

        def var_kw(cname):
            a = r.choice([f for f in fields_of(cname) if ft[(cname, f)][1] not in ("str", "Status") and f != "codes"])   # `'n0' in 'n0'` is a substring test
            it, end = ft[(cname, a)]
            lst = gen_list(r, objs, end, 1, 3)
            return [a, ["var", end, lst]]
        if r.chance(0.5):
            pat = [var_kw(T)]
        else:
            cands = [a for a in fields_of(T) if ft[(T, a)][1] not in SCALARS]
            a = r.choice(cands)
            pat = [[a, ["match", ft[(T, a)][1], [var_kw(ft[(T, a)][1])], "match"]]]
        if r.chance(0.4):
            pat += [kw for kw in gen_alist(r, objs, T, 1, False) if kw[0] != pat[0][0]][:1]
        out.append({"objs": objs, "T": T, "pat": pat, "dom": list(range(len(objs)))})
    return out


def gen_none_cases(tier: str, seed: int) -> List[dict]:
    """worlds in which the Optional attribute Unit.opt is None for about half of the units; keywords on it: nested matches of
    narrower type (a HasType filter comes first), of the declared type (finding C11-g, repaired by 5008deb: was AttributeError), literals, match_any"""
    rng = core.Rng(seed).fork(1113)
    out = []
    for i in range(150 if tier == "quick" else 800):
        r = rng.fork(i)
        objs = gen_world(r, nones=True)
        rr = r.random()
        if rr < 0.6:
            T2 = r.choice(["Knob", "Box", "BigBox", "Knob", "Box", "Part"])
            inner = [[r.choice(["name", "size", "tag"]), None]]
            inner[0][1] = ["lit", gen_value(r, objs, "str" if inner[0][0] == "name" else "int")]
            kw = ["opt", ["match", T2, inner, r.choice(["match", "match", "select"])]]
        elif rr < 0.8:
            kw = ["opt", ["lit", gen_value(r, objs, "Part")]]
        else:
            kw = ["opt", ["any", gen_list(r, objs, "Part", 1, 3)]]
        other = [k for k in gen_alist(r, objs, "Unit", 1, False) if k[0] != "opt"][:1]
        inner_pat = r.choice([[kw], [kw] + other, other + [kw]])
        if r.chance(0.5):
            out.append({"objs": objs, "T": "Unit", "pat": inner_pat, "dom": list(range(len(objs)))})
        else:
            out.append({"objs": objs, "T": "Rack", "pat": [["units", ["match", "Unit", inner_pat, "match"]]], "dom": list(range(len(objs)))})
    return out


def unhashable_witness():
    """corpus/C11/kf_unhashable.json: labels=match_all([Label('a')]) over racks labelled [a], [a, b], []"""
    from krrood.entity_query_language.match import entity_matching, match_all
    from krrood.entity_query_language.quantify_entity import an
    field_table()
    k, b = Knob("n0"), Box("n0")
    racks = [Rack(b, k, [], [], set(), [Label(t) for t in ts]) for ts in (["a"], ["a", "b"], [])]
    try:
        res = list(an(entity_matching(Rack, racks)(labels=match_all([Label("a")]))).evaluate())
        got = sorted({j for j, rk in enumerate(racks) for x in res if x is rk})
    except Exception as e:  # noqa
        got = type(e).__name__
    return got, [0]


def run_unhashable_stream(rep, tier: str, seed: int, open_classes) -> None:
    """match_all / match_any / nested match over a collection of UNHASHABLE elements (Rack.labels: List[Label], Label a plain
    dataclass).  Outside the Coq model: implementation vs the direct reading; TypeError from match_all is finding C11-j."""
    from krrood.entity_query_language.match import entity_matching, match, match_any, match_all
    from krrood.entity_query_language.quantify_entity import an
    rng = core.Rng(seed).fork(1114)
    st = {"cases": 0, "agree": 0, "TypeError (known finding C11-j)": 0}
    for i in range(60 if tier == "quick" else 300):
        r = rng.fork(i)
        labels = [Label(r.choice(["a", "b", "c"])) for _ in range(4)]
        k, b = Knob("n0"), Box("n0")
        racks = [Rack(b, k, [], [], set(), r.sample(labels, r.randint(0, 3))) for _ in range(4)]
        want = r.sample(labels, r.randint(0, 2))
        kind = r.choice(["all", "all", "any", "nested", "lit"])
        mem = lambda x, l: any(x == y for y in l)
        if kind == "all":
            val = match_all(list(want))
            ok = lambda rk: all(mem(x, want) for x in rk.labels) and all(mem(y, rk.labels) for y in want)
        elif kind == "any":
            val = match_any(list(want))
            ok = lambda rk: any(mem(x, want) for x in rk.labels)
        elif kind == "lit":
            val = labels[0]
            ok = lambda rk: mem(labels[0], rk.labels)
        else:
            t = r.choice(["a", "b"])
            val = match(Label)(text=t)
            ok = lambda rk: any(x.text == t for x in rk.labels)
        exp = sorted(j for j, rk in enumerate(racks) if ok(rk))
        try:
            res = list(an(entity_matching(Rack, racks)(labels=val)).evaluate())
            got = sorted({j for j, rk in enumerate(racks) for x in res if x is rk})
        except Exception as e:  # noqa
            got = type(e).__name__
        st["cases"] += 1
        descr = {"kind": kind, "racks": [[l.text for l in rk.labels] for rk in racks], "want": [l.text for l in want]}
        rep.count("unhashable:" + json.dumps(descr), bool(exp))
        if got == exp:
            st["agree"] += 1
        elif got == "TypeError" and kind == "all" and "K_unhashable" in open_classes:
            st["TypeError (known finding C11-j)"] += 1
        else:
            rep.violation({"kind": "counterexample", "case": descr, "impl": got, "spec": exp,
                           "python": "see harness/c11.py:run_unhashable_stream (Rack.labels: List[Label], Label an unhashable dataclass)",
                           "explanation": "labels=<kind>(want) over racks whose labels are given by text; expected = indices of the racks satisfying the reading"})
    rep.extra["unhashable_elements"] = st


TYPEERROR = [-1, sum(map(ord, "TypeError"))]
KF_CLASSES = ("K_emptynested", "K_letvalue", "K_builtincoll", "K_subattr")   # K_emptylist (C11-b), K_existsfirst (C11-c), K_unrelated (C11-d) are repaired: counted, never tolerated
UNSPEC = ("U_in", "U_all_scalar")


def run(tier: str, seed: int, replay=None) -> int:
    from translator import t_match
    rep = Report(PROP, tier, seed, "proof")
    rep.trusted = core.COQ_TRUSTED + [
        "translator/t_match.py (fail-closed ast translator: infer_condition_between_attribute_and_assigned_value, is_type_filter_needed, "
        "the flatten decision of AttributeAssignment.resolve, is_an_unresolved_match, entity_matching -> Gen/Match.v; the statement "
        "order of resolve / Match._resolve / match_any / match_all is compared with the expected text)",
        "hand-written model Eql/Match.v of the conditions built from a pattern and of their evaluation (Attribute, Flatten, Comparator, "
        "HasType, Exists, AND, Entity), tied by differential execution through an(entity_matching(...)(...)).evaluate()",
        "source pins pins/c11.json (48 methods the hand-written model mirrors and t_match.py does not regenerate: Match._update_fields / "
        "expression / _update_selected_variables, entity_selection / select / select_any / select_all / Select._resolve, ResultQuantifier._process_result_, AttributeAssignment.attr / assigned_variable / is_iterable_value, DomainMapping, Attribute, "
        "Flatten, Comparator, Exists, AND, QueryObjectDescriptor, Variable, Literal, entity.py constructors, HasType.__call__, is_iterable, "
        "make_set, HashedValue.__eq__): an edit of any of them reopens the correspondence obligation",
        "harness/c11.py: harness classes, world builder, equality classes computed with the objects' own ==, field table read from the "
        "real Attribute nodes (_is_iterable_, _type_), pattern -> kwargs builder, outcome = set of identities",
    ]
    rep.assume = ["objects' == is an equivalence that respects identity (checked on every generated world)",
                  "attribute values conform to the declared field types (no None, no foreign classes); checked per case by typed_b"]
    rep.rule = ("3000 (quick) / 12000 (thorough) cases after the corpus: random worlds (2-3 knobs, 2-4 boxes, 2-5 units, 3-6 racks; value-equal twins of a box 30% / unit 40% / rack 50%), root type "
                "Rack/WideRack/Unit, random patterns of depth <= 3 with 0-3 keywords per level in random order: scalar literal, object "
                "literal, literal list, match_any/match_all over value lists, nested match/match_any with declared / narrower / wider / "
                "missing / unrelated type; 35% of the patterns use select / select_any / select_all on nested and value keywords (20% / 12% of them) and 40% of those entity_selection for the root: their outcome is the set of ROWS of the selected expressions; 121 / 600 patterns give a let-variable over an explicit domain as a keyword value; 35% of the patterns may also use empty value lists, in_ on scalars, match_all on scalars, empty nested matches; "
                "distinct = distinct (world, pattern, domain); non-trivial = the expected answer is neither empty nor the whole domain of T; plus 250 / 1500 directed cases (nested match on a collection: a match_any several members witness followed or preceded by a keyword only a later member satisfies, root keyword before / after / absent; Unit.__eq__ ignores `parts` and Part.tag is not compared, so == twins differ)")
    ok_spec, log = core.coq_make(["Base/Sx.vo", "Eql/MatchSpecShow.vo"])
    rep.oblige("build:spec", ok_spec, "" if ok_spec else core.first_error(log))
    model_ok = core.standard_proof_steps(
        rep, PROP, ["Props/C11.vo"],
        regen=[("Gen/Match.v", lambda: t_match.translate(str(core.REPO)), core.COQ / "Gen" / "Match.v")])
    from translator import pins
    pins.oblige(rep, str(core.REPO), "c11", "the match evaluation model (Eql/Match.v)")
    findings = core.load_findings(PROP)
    open_classes = {f.cls for f in findings if f.kind == "open"}

    corpus = []
    if replay:
        descrs = [replay["case"]]
    else:
        cdir = core.VERIF / "corpus" / PROP
        if cdir.is_dir():
            for p in sorted(cdir.glob("*.json")):
                c = json.loads(p.read_text())
                if "stream" not in c:                    # witnesses of side streams are replayed by their own code
                    corpus.append((p.name, c))
        descrs = [c["case"] for _, c in corpus] + gen_cases(tier, seed) + gen_directed(tier, seed)
    if not replay:
        descrs += gen_letvalue_cases(tier, seed)        # keywords whose value is a let-variable (finding C11-f)
        descrs += gen_none_cases(tier, seed)            # None-valued Optional attributes (C11-g, repaired)
    ncorpus = len(corpus)

    impls, terms, builts = [], [], []
    for d in descrs:
        out, keys, built = run_impl(d)
        impls.append(out)
        builts.append(py_spec(d, built))
        terms.append(case_term(d, keys))
    if model_ok:
        vals = core.coq_values(PROP, HEADER, [f"case_out {t}" for t in terms], chunk=150)
    else:
        rep.note("model not available; comparing the implementation with the Spec only (search for a failing input)")
        vals = [[None, v[0], 0, 0, None, 0, None, v[1]] for v in core.coq_values(PROP, HEADER_SPEC, [f"SL [spec_out {t}; spec_rows_out {t}]" for t in terms], chunk=150)]

    dist: Dict[str, int] = {}
    kf_seen: Dict[str, int] = {}
    fixed_bad = []
    bad = []
    model_bad = []

    def bump(k, n=1):
        dist[k] = dist.get(k, 0) + n

    lax_bad = []
    def rowset(x):
        if x is None or (len(x) == 2 and x[0] == -1):
            return x
        return sorted({json.dumps([[t, sorted(v)] if t == 3 else [t, v] for t, v in r]) for r in x})

    rows_bad = []
    handle_bad = []
    for i, (d, impl, pys, (model, spec, inf, ncond, lax, inflax, mrows, srows)) in enumerate(zip(descrs, impls, builts, vals)):
        iset = impl[0] if impl[0] != -1 else impl
        sel_case = bool(d.get("rootsel")) or has_sel(d["pat"])
        irows = rowset(impl[2]) if impl[0] != -1 else impl
        mrows, srows = rowset(mrows), rowset(srows)
        if sel_case:
            # patterns with select...: the outcome is the set of rows of the selected inner parts
            bump("with select")
            iset, model, spec = irows, mrows, srows
        elif mrows is not None and irows != mrows:
            rows_bad.append((i, irows, mrows))
        if impl[0] != -1 and len(impl) > 3 and impl[3]:
            # row[select handle] is not the matched element
            if "K_selecthandle" in open_classes and sel_on_collection(d["pat"], d["T"]):
                kf_seen["K_selecthandle"] = kf_seen.get("K_selecthandle", 0) + 1
            else:
                handle_bad.append((i, d, impl[3]))
        cl = classify(d)
        nT = len([j for j in d["dom"] if issub(d["objs"][j]["cls"], d["T"])])
        nontrivial = isinstance(iset, list) and (0 < len(spec) < nT or (sel_case and len(spec) > 0))
        rep.count(json.dumps(d, sort_keys=True), nontrivial)
        for k, n in kinds(d["pat"]).items():
            bump("kind:" + k if k != "depth" else f"depth:{n}", n if k != "depth" else 1)
        bump("in_F" if inf else "outside_F")
        if d.get("live"):
            bump(f"live value lists (mode {d['live']})")
        if d.get("nodomain"):
            bump("no explicit domain (symbol graph)")
        if inflax and not inf:
            bump("in_F11lax only (finding C11-e characterised by C11_match_lax)")
        if inflax and model is not None and not sel_case and model != lax:
            lax_bad.append((i, model, lax))
        for k in cl:
            bump("class:" + k)
        bump("nontrivial" if nontrivial else "trivial")
        if impl[0] not in (-1, None) and impl[1] != len(impl[0]):
            bump("answers_with_repeats")
        if not sel_case and pys != spec and not any(k in cl for k in UNSPEC):
            rep.oblige("spec:python-predicate", False, f"Spec {spec} differs from the direct Python predicate {pys} on case {i}")
        if model is not None and iset != model:
            model_bad.append((i, d, iset, model, spec))
        if iset == spec:
            bump("agree")
            continue
        if any(k in cl for k in UNSPEC) and not inf:
            bump("unspecified(in_/match_all on a scalar attribute): impl vs model only")
            continue
        hit = [k for k in KF_CLASSES if k in cl and k in open_classes]
        if not inf and hit and (model is None or iset == model):
            for k in hit:
                kf_seen[k] = kf_seen.get(k, 0) + 1
            bump("known-finding instances")
            continue
        bad.append((i, d, iset, model, spec))

    rep.extra["distribution"] = dict(sorted(dist.items()))
    rep.extra["known_finding_instances"] = kf_seen
    rep.samples = [{"case": descrs[j], "impl": impls[j], "spec": vals[j][1]} for j in range(ncorpus, len(descrs), max(1, len(descrs) // 5))][:5]
    if model_ok:
        rep.oblige("instance:C11_match_lax", not lax_bad,
                   "" if not lax_bad else f"model answer differs from the relaxed reading inside F11lax on case {lax_bad[0][0]}: {lax_bad[0][1]} vs {lax_bad[0][2]}")
        rep.oblige("correspondence:rows", not rows_bad,
                   "" if not rows_bad else f"rows of a pattern without select differ: case {rows_bad[0][0]}: impl {rows_bad[0][1]} model {rows_bad[0][2]}")
        rep.oblige("correspondence:model", not model_bad,
                   "" if not model_bad else f"{len(model_bad)} cases, first: impl {model_bad[0][2]} model {model_bad[0][3]} case {json.dumps(model_bad[0][1])[:300]}")
    for i, d, n in handle_bad[:3]:
        rep.violation({"kind": "counterexample", "case": d, "impl": f"{n} rows in which row[select handle] is not the matched element",
                       "python": snippet(d),
                       "explanation": "for every select(...) handle h and every result row r: r[h] must be the value of the variable the select was resolved on (the matched element)"})
    for i, d, iset, model, spec in (bad + [m for m in model_bad if m[2] == m[4]][:1])[:5]:
        if (i, d, iset, model, spec) in bad:
            rep.violation({"kind": "counterexample", "case": d, "impl": iset, "model": model, "spec": spec,
                           "classes": classify(d), "python": snippet(d),
                           "explanation": "outcome = sorted identities (1-based object index) of the elements returned; spec = elements of type T satisfying the pattern; "
                                          "for a pattern with select / entity_selection: the set of rows of the selected expressions, each value as "
                                          "[0,int] | [1,object] | [3,[objects]]"})
    if not replay:
        run_unhashable_stream(rep, tier, seed, open_classes)
    # known findings and fixed entries: replay the witnesses
    if not replay:
        by_name = {n: k for k, (n, _) in enumerate(corpus)}
        for f in findings:
            name = f.witness.split("/")[-1]
            if f.cls == "K_unhashable":
                got, exp = unhashable_witness()
                if got == "TypeError" and got != exp:
                    rep.known(f)
                elif got == exp:
                    rep.note(f"known finding {f.fid} no longer reproduces on its witness (repaired?)")
                else:
                    rep.violation({"kind": "counterexample", "finding": f.fid, "impl": got, "spec": exp,
                                   "python": "from harness import c11; print(c11.unhashable_witness())",
                                   "explanation": "the witness of C11-j fails differently from what is recorded"})
                continue
            if name not in by_name:
                rep.oblige(f"witness:{f.fid}", False, f"witness {f.witness} missing")
                continue
            k = by_name[name]
            impl, (model, spec, inf, *_rest) = impls[k], vals[k]
            iset = impl[0] if impl[0] != -1 else impl
            if f.cls == "K_selecthandle":
                bad_h = impl[0] != -1 and len(impl) > 3 and impl[3]
                if f.kind == "open":
                    rep.known(f) if bad_h else rep.note(f"known finding {f.fid} no longer reproduces on its witness (repaired?)")
                elif bad_h:
                    rep.violation({"kind": "regression", "finding": f.fid, "case": descrs[k], "impl": f"{impl[3]} rows with a wrong handle value",
                                   "python": snippet(descrs[k]), "explanation": f"defect {f.fid} repaired by {f.commit} is back"})
                continue
            if f.kind == "open":
                if iset != spec and (model is None or iset == model):
                    rep.known(f)
                elif iset == spec:
                    rep.note(f"known finding {f.fid} no longer reproduces on its witness (repaired?)")
            else:
                if iset != spec:
                    rep.violation({"kind": "regression", "finding": f.fid, "case": descrs[k], "impl": iset, "spec": spec,
                                   "python": snippet(descrs[k]), "explanation": f"defect {f.fid} repaired by {f.commit} is back"})
    return rep.finish()
