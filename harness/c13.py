"""C13 -- domain-less variables range over exactly the live instances of their type.

Shared machinery of C13 / C14 / C20 (one state-machine model of the SymbolGraph registry, coq/Onto/Registry*.v):
history generator, the implementation driver (worker subprocesses with a fixed Symbol class hierarchy, real
gc.collect(), weak-reference census, read-only inspection of SymbolGraph's containers), the Gallina printing of a
history with the *observed* runtime choices (addresses, node indices), and the three-way decision."""
from __future__ import annotations

import json
import subprocess
import sys
from concurrent.futures import ThreadPoolExecutor
from typing import Any, Dict, List, Optional, Sequence, Tuple

from . import core
from .core import Report

PROP = "C13"
FUEL = 8
NCLS = 10  # A B C D E F G H Z Y, see _classes()
QUERY_TYPES = [0, 1, 2, 3, 4, 6, 7, 5, 8, 9, 0, 6]

HEADER_TMPL = """From Coq Require Import List ZArith.
From Krrood Require Import Base.Sx Onto.RegistrySpec Onto.RegistrySpecRun Onto.Registry Onto.RegistryRun.
Import ListNotations.
Local Open Scope nat_scope.
Definition tbl : list (nat * list nat) := %s.
Definition code (h : list op) (impl : sx) : Z := case_code tbl %d h impl.
Definition mtrace (h : list op) : sx := model_trace tbl %d h.
Definition itrace (h : list op) : sx := ideal_trace tbl %d h.
"""
HEADER_SPEC_TMPL = """From Coq Require Import List ZArith.
From Krrood Require Import Base.Sx Onto.RegistrySpec Onto.RegistrySpecRun.
Import ListNotations.
Local Open Scope nat_scope.
Definition tbl : list (nat * list nat) := %s.
Definition code (h : list op) (impl : sx) : Z := case_code_spec tbl %d h impl.
Definition itrace (h : list op) : sx := ideal_trace tbl %d h.
"""


def header(tbl, spec_only=False) -> str:
    t = "[" + "; ".join("(%d, [%s])" % (c, "; ".join(map(str, ch))) for c, ch in tbl) + "]"
    if spec_only:
        return HEADER_SPEC_TMPL % (t, FUEL, FUEL)
    return HEADER_TMPL % (t, FUEL, FUEL, FUEL)


# ------------------------------------------------------------------------------------------------ implementation side
_CL = None


def _classes():
    """The fixed Symbol hierarchy of a worker process (Symbol subclasses cannot be unregistered):
         A -> B, C, H ; B -> D, E ; C -> D (diamond) ; D -> F ; G separate root ; H has value equality."""
    global _CL
    if _CL is not None:
        return _CL
    from dataclasses import dataclass, fields
    from krrood.entity_query_language.predicate import Symbol
    from krrood.class_diagrams.class_diagram import WrappedClass
    from krrood.class_diagrams.wrapped_field import WrappedField

    @dataclass(eq=False)
    class A(Symbol):
        n: int = 0
        r0: Any = None
        r1: Any = None
        uid: int = -1   # the harness' number of the instance (what attribute-selecting queries return)

    @dataclass(eq=False)
    class B(A):
        pass

    @dataclass(eq=False)
    class C(A):
        pass

    @dataclass(eq=False)
    class D(B, C):
        pass

    @dataclass(eq=False)
    class E(B):
        pass

    @dataclass(eq=False)
    class F(D):
        pass

    @dataclass(eq=False)
    class G(Symbol):
        n: int = 0
        uid: int = -1

    @dataclass
    class H(A):  # value-equal instances (n in {0, 1}); wrappers of such instances compare equal
        def __hash__(self):
            return hash(self.n)

    @dataclass(eq=False)
    class Z(A):  # a container-like Symbol: every other instance is EMPTY, i.e. falsy, while it is perfectly alive
        def __len__(self):
            return self.n % 2

    @dataclass(eq=False)
    class Y(G):  # a Symbol with its own truth value: every other instance is falsy
        def __bool__(self):
            return self.n % 2 == 1

    cl = [A, B, C, D, E, F, G, H, Z, Y]
    wc = WrappedClass(A)
    fl = [WrappedField(wc, f) for f in fields(A) if f.name in ("r0", "r1")]
    _CL = (cl, fl)
    return _CL


def class_table() -> List[Tuple[int, List[int]]]:
    """cls.__subclasses__() of the harness classes as the implementation reports it (the model's `children`)."""
    cl, _ = _classes()
    num = {c: k for k, c in enumerate(cl)}
    return [(k, [num[s] for s in c.__subclasses__() if s in num]) for k, c in enumerate(cl)]


def run_history(hist: List[list]) -> Dict[str, Any]:
    """Execute one history on the real implementation; returns per step: the observed runtime choices, the output,
    and the observation (census, container sizes, relations between existing instances, expression-table growth)."""
    import gc
    import weakref
    from krrood.entity_query_language.entity import entity, let, set_of
    from krrood.entity_query_language.quantify_entity import an
    from krrood.entity_query_language.symbol_graph import SymbolGraph, PredicateClassRelation
    from krrood.entity_query_language.symbolic import SymbolicExpression

    cl, fl = _classes()
    gc.collect()
    SymbolGraph().clear()
    SymbolGraph()
    # expression objects per query form (Variable, [Attribute..], descriptor, An; nested: two queries, a comparator, ...)
    SIZE = {None: 3, "attr": 4, "setof": 5, "nested": 9, "nestsel": 5, "nestent": 5}
    expected_exprs = 0
    qkey: Dict[int, Any] = {}                 # query object -> (form, selected expression to read a row with)

    def make_query(T, form):
        """the domain-less variable selected directly, or reached ONLY through selected attributes (no condition on it)"""
        x = let(cl[T], None)
        if form == "attr":
            return an(entity(x.uid)), None
        if form == "setof":
            xu = x.uid
            return an(set_of([xu, x.n])), xu
        if form == "nested":
            # the domain-less variable is the selected variable of a NESTED query and appears in no condition
            inner = an(entity(x))
            w = let(cl[T], None)
            return an(set_of([w, inner], w.uid == inner.uid)), inner
        if form in ("nestsel", "nestent"):
            # ... and the nested query itself is only SELECTED, it is in no condition either
            inner = an(entity(x))
            return (an(set_of([inner])), inner) if form == "nestsel" else (an(entity(inner)), None)
        return an(entity(x)), None

    def rows(form, key, res):
        """rows -> instance numbers (attribute forms return the uid attribute = the harness' number of the instance)"""
        if form is None:
            return number(res)
        if form in ("nested", "nestsel"):
            return number([r[key] for r in res])
        if form == "nestent":
            return number(res)
        vals = [r if form == "attr" else r[key] for r in res]
        return [(v if isinstance(v, int) and v in wref and wref[v]() is not None else -2) for v in vals]

    objs: Dict[int, Any] = {}
    wref: Dict[int, Any] = {}
    qs: Dict[int, Any] = {}
    keep = {op[1] for op in hist if op[0] in ("Eval", "ReEval", "Start")}
    its: Dict[int, Any] = {}
    itq: Dict[int, int] = {}
    nq = 0
    nnew = 0
    emap = SymbolicExpression._id_expression_map_
    base = len(emap)
    pyids: Dict[int, int] = {}
    steps = []

    def number(res):
        alive = {}
        for k, r in wref.items():
            x = r()
            if x is not None:
                alive[id(x)] = k
            del x
        return [(-1 if x is None else alive.get(id(x), -2)) for x in res]

    for op in hist:
        kind = op[0]
        ob: List[int] = []
        out: Any = [0]
        try:
            if kind == "New":
                c = op[1]
                o = cl[c](n=(nnew % 2 if c == 7 else nnew), uid=nnew)
                objs[nnew] = o
                wref[nnew] = weakref.ref(o)
                nnew += 1
                p = pyids.setdefault(id(o), len(pyids))
                ob = [p, SymbolGraph()._instance_index[id(o)].index]
                del o
            elif kind == "Drop":
                del objs[op[1]]
                gc.collect()
            elif kind == "Sweep":
                SymbolGraph().remove_dead_instances()
            elif kind == "QueryG":
                SymbolGraph().remove_dead_instances()
                res = list(SymbolGraph().get_instances_of_type(cl[op[1]]))
                out = [1, number(res)]
                del res
            elif kind == "QueryE":
                form = op[2] if len(op) > 2 else None
                q, key = make_query(op[1], form)
                expected_exprs += SIZE[form]
                qkey[nq] = (form, key)
                res = list(q.evaluate())
                out = [1, rows(form, key, res)]
                del res
                if nq in keep:
                    qs[nq] = q
                nq += 1
                del q
            elif kind == "Declare":
                # let(T, None) is called and the query object built, nothing is evaluated; the program keeps the query
                # object only if the history evaluates it later
                form = op[2] if len(op) > 2 else None
                q, key = make_query(op[1], form)
                expected_exprs += SIZE[form]
                qkey[nq] = (form, key)
                if nq in keep:
                    qs[nq] = q
                nq += 1
                del q
            elif kind in ("Eval", "ReEval"):
                res = list(qs[op[1]].evaluate())
                out = [1, rows(*qkey[op[1]], res)]
                del res
            elif kind == "Start":
                # a live evaluation: the iterator is created, nothing runs before the first row is requested
                itq[len(its)] = op[1]
                its[len(its)] = qs[op[1]].evaluate()
            elif kind == "Next":
                try:
                    x = next(its[op[1]])
                    out = [1, rows(*qkey[itq[op[1]]], [x])]
                    del x
                except StopIteration:
                    out = [1, []]
            elif kind == "Close":
                its[op[1]].close()
            elif kind == "Relate":
                r = PredicateClassRelation(objs[op[1]], objs[op[3]], fl[op[2]])
                nw = r.add_to_graph()
                ob = [r.source.index, r.target.index]
                out = [2, bool(nw)]
                del r
            elif kind == "Clear":
                SymbolGraph().clear()
                SymbolGraph()
            else:
                raise ValueError(kind)
        except Exception as e:  # noqa
            steps.append({"exc": f"{type(e).__name__}: {e}"[:300]})
            break
        sg = SymbolGraph()
        census = [k for k, r in wref.items() if r() is not None]
        sizes = [len(sg._instance_graph.nodes()), len(sg._instance_index),
                 sum(len(v) for v in sg._class_to_wrapped_instances.values()),
                 len(sg._instance_graph.edge_list()), sum(len(v) for v in sg._relation_index.values())]
        rels = []
        for e in sg._instance_graph.edges():
            a, b = e.source.instance, e.target.instance
            if a is not None and b is not None:
                na, nb = number([a, b])
                rels.append([na, fl.index(e.wrapped_field), nb])
            del a, b
        d = len(emap) - base
        steps.append({"ob": ob, "out": out, "census": census, "sizes": sizes,
                      "rels": sorted([list(t) for t in {tuple(r) for r in rels}]),
                      "nvars": nq if d == expected_exprs else -d - 1})
    objs.clear()
    for it in its.values():
        it.close()
    its.clear()
    qs.clear()
    gc.collect()
    return {"steps": steps}


def _worker_main():
    data = json.load(sys.stdin)
    fn = {"hist": run_history, "meta": run_meta, "loop": run_loop, "roles": run_roles, "clone": run_clone, "grow": run_grow,
          "lateclass": run_lateclass, "special": run_special, "rules": run_rules}
    out = {"tbl": class_table(), "res": []}
    import gc
    import test.dataset.university_ontology_like_classes  # noqa  (fixed set of Symbol classes per worker)
    from krrood.entity_query_language.symbol_graph import SymbolGraph
    SymbolGraph()
    gc.collect()
    gc.freeze()  # only makes the many collections of a history cheap: imported modules are not re-scanned
    for kind, payload in data["jobs"]:
        try:
            out["res"].append(fn[kind](payload))
        except Exception as e:  # noqa
            out["res"].append({"fatal": f"{type(e).__name__}: {e}"[:400]})
    json.dump(out, sys.stdout)


def run_jobs(jobs: Sequence[Tuple[str, Any]], chunk: int = 120, procs: int = 8, timeout: int = 900):
    """Run jobs in worker subprocesses (fresh interpreter per chunk). Returns (class table, results)."""
    # chunks bounded both in number of jobs and in total number of operations (long loop histories get small chunks)
    parts: List[list] = [[]]
    weight = 0
    for j in jobs:
        w = len(j[1]) if j[0] == "hist" else 40
        if parts[-1] and (len(parts[-1]) >= chunk or weight + w > 2400):
            parts.append([])
            weight = 0
        parts[-1].append(j)
        weight += w

    def one(part):
        r = subprocess.run([core.PY, "-W", "ignore", "-m", "harness.c13", "--worker"], input=json.dumps({"jobs": part}),
                           stdout=subprocess.PIPE, stderr=subprocess.PIPE, text=True, env=core.IMPL_ENV,
                           cwd=str(core.VERIF), timeout=timeout)
        if r.returncode != 0:
            raise RuntimeError("worker failed: " + r.stderr[-1500:])
        return json.loads(r.stdout[r.stdout.index("{"):])

    with ThreadPoolExecutor(max_workers=procs) as ex:
        outs = list(ex.map(one, parts))
    tbl = outs[0]["tbl"]
    for o in outs:
        if o["tbl"] != tbl:
            raise RuntimeError("class table differs between workers")
    return tbl, [r for o in outs for r in o["res"]]


# -------- descriptor path (C14 metamorphic) and the create/relate/query/discard loop (C20); used by c14.py / c20.py
def run_meta(payload) -> Dict[str, Any]:
    """Same assertion sequence over Person/Company descriptors (a) on a fresh graph, (b) after a garbage prefix that
    creates, relates and drops instances so that node indices and addresses are reused."""
    import gc
    from krrood.entity_query_language.symbol_graph import SymbolGraph
    from test.dataset.university_ontology_like_classes import Company, Person

    def assertions(tag, dead_sources=()):
        np_, nc_, acts = payload["np"], payload["nc"], payload["acts"]
        ps = [Person(name=f"{tag}p{i}") for i in range(np_)]
        cs = [Company(name=f"{tag}c{i}") for i in range(nc_)]
        # garbage that was related TO the objects of the assertions: a company that was a sub-organisation of cs[j] and is
        # gone (collected; its node swept or not yet) before the assertions are made
        def garbage(pos):
            for k, d in enumerate(dead_sources):
                j, sweep, at = d[0], d[1], (d[2] if len(d) > 2 else 0)
                if at != pos:
                    continue
                g_ = Company(name=f"{tag}dead{k}")
                g_.sub_organization_of = [cs[j % nc_]]
                del g_
                gc.collect()
                if sweep:
                    SymbolGraph().remove_dead_instances()

        # garbage that one of the assertion objects was related TO: cs[j] was a sub-organisation of a company that is gone
        # (collected, node not swept) while the graph edge cs[j] -> gone is still there; route "reassign": the field was
        # re-assigned before the drop, route "direct": the relation was recorded directly
        if dead_sources is not None and tag == "a":
            from krrood.ontomatic.property_descriptor.property_descriptor_relation import PropertyDescriptorRelation
            for k, (j, route) in enumerate(payload.get("dead_targets", ())):
                gone = Company(name=f"{tag}gone{k}")
                if route == "reassign":
                    cs[j % nc_].sub_organization_of = [gone]
                    cs[j % nc_].sub_organization_of = []
                else:
                    PropertyDescriptorRelation(cs[j % nc_], gone, Company.sub_organization_of.wrapped_field).add_to_graph()
                del gone
                gc.collect()
        log = []
        for pos, (kind, i, j) in enumerate(acts):
            garbage(pos)
            try:
                if kind == "works_for":
                    ps[i].works_for = cs[j]
                elif kind == "member_of":
                    ps[i].member_of.append(cs[j])
                elif kind == "members":
                    cs[j].members.add(ps[i])
                elif kind == "sub":
                    cs[i % nc_].sub_organization_of.append(cs[j])
            except Exception as e:  # noqa
                log.append(["exc", type(e).__name__, kind, i, j])
        garbage(len(acts))
        sg = SymbolGraph()
        num = {id(x): k for k, x in enumerate(ps + cs)}
        fields_ = [[(-1 if p.works_for is None else num.get(id(p.works_for), -2)),
                    sorted(num.get(id(c), -2) for c in p.member_of)] for p in ps]
        fields_ += [[sorted(num.get(id(p), -2) for p in c.members),
                     sorted(num.get(id(x), -2) for x in c.sub_organization_of)] for c in cs]
        rels = sorted([num.get(id(e.source.instance), -2), e.wrapped_field.name, num.get(id(e.target.instance), -2),
                       bool(e.inferred)] for e in sg._instance_graph.edges()
                      if id(e.source.instance) in num and id(e.target.instance) in num)
        return {"log": log, "fields": fields_, "rels": rels}

    gc.collect()
    SymbolGraph().clear()
    SymbolGraph()
    fresh = assertions("f")
    gc.collect()
    SymbolGraph().clear()
    SymbolGraph()
    # garbage prefix
    keepers = []
    for rnd, (n, sweep, keep_one) in enumerate(payload["prefix"]):
        ps = [Person(name=f"g{rnd}p{i}") for i in range(n)]
        cs = [Company(name=f"g{rnd}c{i}") for i in range(n)]
        for p, c in zip(ps, cs):
            p.works_for = c
        if n > 1:
            cs[0].sub_organization_of.append(cs[1])
        if keep_one and ps:
            keepers.append((ps[0], cs[0]))
        del ps, cs
        try:
            del p, c
        except NameError:
            pass
        gc.collect()
        if sweep:
            SymbolGraph().remove_dead_instances()
    after = assertions("a", payload.get("dead_sources", ()))
    sg = SymbolGraph()
    sizes_after = [len(sg._instance_graph.nodes()), len(sg._instance_index)]
    keepers.clear()
    gc.collect()
    return {"fresh": fresh, "after": after, "sizes": sizes_after}


def run_loop(payload) -> Dict[str, Any]:
    """`iters` rounds of: create instances, relate them (direct relations and descriptor fields), optionally query
    through the registry / through EQL, drop everything, collect.  Reports container sizes and census per round."""
    import gc
    import weakref
    from krrood.entity_query_language.entity import entity, let
    from krrood.entity_query_language.quantify_entity import an
    from krrood.entity_query_language.symbol_graph import SymbolGraph, PredicateClassRelation
    from krrood.entity_query_language.symbolic import SymbolicExpression
    from krrood.entity_query_language.rxnode import RWXNode
    from test.dataset.university_ontology_like_classes import Company, Person

    cl, fl = _classes()
    gc.collect()
    SymbolGraph().clear()
    SymbolGraph()
    rows = []
    refs = []
    emap = SymbolicExpression._id_expression_map_
    e0, r0 = len(emap), len(RWXNode._graph.node_indices())
    for it in range(payload["iters"]):
        xs = [cl[c](n=k) for k, c in enumerate(payload["classes"])]
        for a, f, b in payload["rels"]:
            PredicateClassRelation(xs[a], xs[b], fl[f]).add_to_graph()
        ps = [Person(name=f"p{it}_{i}") for i in range(payload["pairs"])]
        cs = [Company(name=f"c{it}_{i}") for i in range(payload["pairs"])]
        for p, c in zip(ps, cs):
            p.works_for = c
        refs += [weakref.ref(x) for x in xs + ps + cs]
        mode = payload["query"]
        if mode == "registry":
            SymbolGraph().remove_dead_instances()
            n = len(list(SymbolGraph().get_instances_of_type(cl[0])))
        elif mode == "eql":
            n = len(list(an(entity(let(cl[0], None))).evaluate()))
        elif mode == "eql_attr":
            # the variable is reached only through the selected attribute
            n = len(list(an(entity(let(cl[0], None).uid)).evaluate()))
        elif mode == "eql_domain":
            n = len(list(an(entity(let(cl[0], xs))).evaluate()))
        elif mode == "eql_literal":
            # an instance used as a constant in a condition (wrapped into a Literal by the comparison)
            x_ = let(cl[0], None)
            n = len(list(an(entity(x_, x_.r0 == xs[0])).evaluate()))
            del x_
        elif mode == "declare":
            an(entity(let(cl[0], None)))   # declared while the instances exist, dropped without evaluating
            n = -1
        else:
            n = -1
        del xs, ps, cs
        try:
            del p, c
        except NameError:
            pass
        gc.collect()
        SymbolGraph().remove_dead_instances()
        sg = SymbolGraph()
        rows.append({"n": n, "alive": sum(1 for r in refs if r() is not None),
                     "sizes": [len(sg._instance_graph.nodes()), len(sg._instance_index),
                               sum(len(v) for v in sg._class_to_wrapped_instances.values()),
                               len(sg._instance_graph.edge_list()), sum(len(v) for v in sg._relation_index.values())],
                     "exprs": len(emap) - e0, "rwx": len(RWXNode._graph.node_indices()) - r0})
    return {"rows": rows}


def run_roles(payload) -> Dict[str, Any]:
    """Role-taker relations (CEO is a role played by a Person; `ceo.head_of = company` infers company.members ∋ ceo and,
    through the role taker, person.member_of ∋ company).  Each round hires (and optionally hands the role over), then the
    program gives up every reference to the persons / role objects that left, while the company (and so the edges that end
    in it) may live on.  Reports who is still alive right after gc.collect() -- before any sweep -- and after a sweep."""
    import gc
    import weakref
    from krrood.entity_query_language.symbol_graph import SymbolGraph
    from test.dataset.university_ontology_like_classes import Company, Person, CEO

    gc.collect()
    SymbolGraph().clear()
    SymbolGraph()
    keep_company = payload["keep_company"]
    company = Company(name="K") if keep_company else None
    rows = []
    for it in range(payload["iters"]):
        c = company if keep_company else Company(name=f"C{it}")
        gone = []
        stay = []
        for k in range(payload["hires"]):
            person = Person(name=f"p{it}_{k}")
            ceo = CEO(person)
            ceo.head_of = c
            ok = (ceo in c.members) and (c in person.member_of)
            if payload["mode"] == "handover":
                former = ceo.person
                ceo.person = Person(name=f"q{it}_{k}")
                c.members.discard(former)
                gone.append(weakref.ref(former))
                del former
                stay.append(ceo)          # the role object and its new holder stay
            else:
                c.members.discard(ceo)
                c.members.discard(person)
                gone += [weakref.ref(person), weakref.ref(ceo)]
            del person, ceo
        gc.collect()
        alive_before_sweep = sum(1 for r in gone if r() is not None)
        SymbolGraph().remove_dead_instances()
        gc.collect()
        alive_after_sweep = sum(1 for r in gone if r() is not None)
        sg = SymbolGraph()
        live_nodes = sum(1 for w in sg._instance_graph.nodes() if w.instance is not None)
        rows.append({"inferred": bool(ok), "alive_before_sweep": alive_before_sweep, "alive_after_sweep": alive_after_sweep,
                     "nodes": len(sg._instance_graph.nodes()), "live_nodes": live_nodes, "by_id": len(sg._instance_index)})
        if payload["mode"] == "handover":
            # next round the role objects that stayed are released too
            for x in stay:
                c.members.discard(x)
                c.members.discard(x.person)
            del x
        stay.clear()
        if not keep_company:
            del c
        gc.collect()
    return {"rows": rows}


def run_clone(payload) -> Dict[str, Any]:
    """C14, descriptor path: an instance is shallow-copied (copy.copy goes through Symbol.__new__, the clone shares the
    managed container objects), the template is dropped and collected (or kept), then a relation is asserted through
    the CLONE's managed field.  It has to be recorded for the clone, with its inverse, exactly as for a fresh instance:
    the template must not leave a (dead) owner reference behind that suppresses or redirects it."""
    import copy
    import gc
    import weakref
    from krrood.entity_query_language.symbol_graph import SymbolGraph
    from test.dataset.university_ontology_like_classes import Company, Person

    gc.collect()
    SymbolGraph().clear()
    SymbolGraph()
    problems = []

    def rels(*xs):
        num = {id(x): k for k, x in enumerate(xs)}
        return sorted([num[id(r.source.instance)], r.wrapped_field.name, num[id(r.target.instance)]]
                      for r in SymbolGraph().relations()
                      if id(r.source.instance) in num and id(r.target.instance) in num)

    for rnd in range(payload["rounds"]):
        if payload["side"] == "person":
            template = Person(name=f"t{rnd}")
            for k in range(payload["before"]):
                template.member_of.append(Company(name=f"old{rnd}_{k}"))
            clone = copy.copy(template)
            clone.name = f"clone{rnd}"
        else:
            template = Company(name=f"t{rnd}")
            for k in range(payload["before"]):
                template.members.add(Person(name=f"old{rnd}_{k}"))
            clone = copy.copy(template)
            clone.name = f"clone{rnd}"
        wt = weakref.ref(template)
        if payload["drop_template"]:
            del template
            gc.collect()
            # (with earlier relations the inverse fields of the old objects still reference the template: user references)
            if wt() is not None and payload["before"] == 0:
                problems.append(f"round {rnd}: the template was not collected")
        if payload["sweep"]:
            SymbolGraph().remove_dead_instances()
        if payload["side"] == "person":
            other = Company(name=f"c{rnd}")
            clone.member_of.append(other)
            expected = [[0, "member_of", 1], [1, "members", 0]]
            inverse_ok = any(x is clone for x in other.members)
        else:
            other = Person(name=f"p{rnd}")
            clone.members.add(other)
            expected = [[0, "members", 1], [1, "member_of", 0]]
            inverse_ok = any(x is clone for x in other.member_of)
        found = rels(clone, other)
        if found != expected:
            problems.append(f"round {rnd}: relations between the clone (0) and the new object (1): {found}, expected {expected}")
        if not inverse_ok:
            problems.append(f"round {rnd}: the inverse field of the new object does not contain the clone")
        del clone, other
        if not payload["drop_template"]:
            del template
        gc.collect()
    return {"problems": problems}


def run_grow(payload) -> Dict[str, Any]:
    """C20 / C13: ONE query object whose expression tree GROWS between evaluations (evaluate, add a conclusion that introduces a
    new domain-less variable, evaluate again -- the rule-learning workflow), then everything is dropped: every instance has to
    be reclaimed, later domain-less variables must not range over them, the symbol graph is back to its size."""
    import gc
    import weakref
    from test.dataset.semantic_world_like_classes import Body, Container, Drawer, FixedConnection, Handle, View
    from krrood.entity_query_language.conclusion import Add
    from krrood.entity_query_language.entity import entity, let, inference
    from krrood.entity_query_language.quantify_entity import an
    from krrood.entity_query_language.symbol_graph import SymbolGraph

    gc.collect()
    SymbolGraph().clear()
    SymbolGraph()
    problems = []

    def sizes():
        sg = SymbolGraph()
        return [len(sg._instance_graph.nodes()), len(sg._instance_index), sum(len(v) for v in sg._class_to_wrapped_instances.values())]

    before = sizes()
    for rnd in range(payload["rounds"]):
        container = Container(f"container_{rnd}", size=2)
        handle = Handle(f"handle_{rnd}")
        connection = FixedConnection(container, handle)
        refs = {"container": weakref.ref(container), "handle": weakref.ref(handle), "connection": weakref.ref(connection)}
        body = let(Body, domain=None)
        fixed_connection = let(FixedConnection, domain=None)
        query = an(entity(views := let(View, domain=None), body == fixed_connection.parent))

        def add_rule():
            with query:
                Add(views, inference(Drawer)(handle=let(Handle, domain=None), container=body))

        results = []
        if payload["extend_after"] > 0:
            for _ in range(payload["extend_after"]):
                results.append(list(query.evaluate()))
            add_rule()
        else:
            add_rule()
        for _ in range(payload["evaluations"]):
            results.append(list(query.evaluate()))
        if not results[-1] or not isinstance(results[-1][0], Drawer):
            problems.append(f"round {rnd}: the extended query did not infer a Drawer: {results[-1]!r}"[:200])
        else:
            refs["drawer"] = weakref.ref(results[-1][0])
        del container, handle, connection, body, fixed_connection, views, query, results, add_rule
        gc.collect()
        seen = list(an(entity(let(Body, domain=None))).evaluate()) + list(an(entity(let(View, domain=None))).evaluate())
        SymbolGraph().remove_dead_instances()
        gc.collect()
        SymbolGraph().remove_dead_instances()
        alive = sorted(k for k, r in refs.items() if r() is not None)
        if alive:
            problems.append(f"round {rnd}: still alive after the program dropped everything: {alive}")
        if seen:
            problems.append(f"round {rnd}: later domain-less variables still range over {len(seen)} dropped instances")
        del seen
    after = sizes()
    if after != before:
        problems.append(f"the symbol graph grew: nodes / id index / per-class lists {before} -> {after}")
    return {"problems": problems}


def run_lateclass(payload) -> Dict[str, Any]:
    """C13: the class hierarchy GROWS between evaluations: a domain-less variable over T is evaluated, then a new subclass of T
    (or of a subclass) is defined and instantiated, then T is queried again -- registry level, a fresh EQL query, and the query
    object that was evaluated before."""
    import gc
    from dataclasses import dataclass
    from krrood.entity_query_language.entity import entity, let
    from krrood.entity_query_language.quantify_entity import an
    from krrood.entity_query_language.symbol_graph import SymbolGraph

    cl, _ = _classes()
    gc.collect()
    if payload.get("clear_first", True):
        SymbolGraph().clear()
        SymbolGraph()
    problems = []
    T = cl[payload["T"]]
    parent = cl[payload["parent"]]
    keep = [T(n=1, uid=1), parent(n=2, uid=2)]
    q = an(entity(let(T, None)))
    first = sorted(x.uid for x in q.evaluate())
    SymbolGraph().remove_dead_instances()
    list(SymbolGraph().get_instances_of_type(T))
    run_lateclass.counter = getattr(run_lateclass, "counter", 0) + 1
    Late = dataclass(eq=False)(type(f"Late{run_lateclass.counter}", (parent,), {}))
    keep.append(Late(n=3, uid=3))
    expected = sorted(x.uid for x in keep if isinstance(x, T))
    got = {
        "registry": sorted(x.uid for x in SymbolGraph().get_instances_of_type(T)),
        "fresh query": sorted(x.uid for x in an(entity(let(T, None))).evaluate()),
        "same query object again": sorted(x.uid for x in q.evaluate()),
    }
    for how, g in got.items():
        if g != expected:
            problems.append(f"{how}: instances {g}, expected {expected} (before the new subclass: {first})")
    del keep, q
    gc.collect()
    SymbolGraph().remove_dead_instances()
    return {"problems": problems}


def run_special(payload) -> Dict[str, Any]:
    """C13 scenarios outside the history machine; each returns what was observed (`got`) and what the property demands
    (`expected`), as canonical JSON:
      paths      "however they were created": constructor, copy.copy, copy.deepcopy, dataclasses.replace, and objects read back from
                 their data access objects (to_dao(x).from_dao()); before and after the originals are dropped
      predicate  instances of Predicate types (update_cache skips them)
      idattr     a Symbol class whose instances answer to the name `_id_` (catch-all __getattr__ / a field of that name)
      nestsel    a nested query that is only SELECTED (its variable is in no condition, the nested query is in no condition):
                 an(set_of([an(entity(x))])) / an(entity(an(entity(x)))), evaluated again after instances were created / dropped
      samename   two (three) different live classes with the same module-qualified name below T (class factory / type() called twice)
      reclass    obj.__class__ reassigned after creation
      virtual    a Symbol class registered as a virtual subclass (ABC.register) of an abstract Symbol type"""
    import copy
    import dataclasses
    import gc
    from dataclasses import dataclass, field
    from krrood.entity_query_language.entity import entity, let, set_of
    from krrood.entity_query_language.predicate import Symbol, Predicate, HasType
    from krrood.entity_query_language.quantify_entity import an
    from krrood.entity_query_language.symbol_graph import SymbolGraph

    gc.collect()
    SymbolGraph().clear()
    SymbolGraph()
    kind = payload["kind"]
    run_special.counter = getattr(run_special, "counter", 0) + 1
    tag = run_special.counter
    got: Dict[str, Any] = {}
    exp: Dict[str, Any] = {}

    def ids(T, pool):
        """numbers (positions in pool) of what let(T, None) ranges over; -1 for anything not in the pool"""
        num = {id(x): k for k, x in enumerate(pool)}
        return sorted(num.get(id(v), -1) for v in an(entity(let(T, None))).evaluate())

    if kind == "paths":
        cl, _ = _classes()
        A, G = cl[0], cl[6]
        pool = [A(n=1, uid=1), cl[3](n=2, uid=2), G(n=3, uid=3)]
        pool.append(copy.copy(pool[0]))
        pool.append(copy.deepcopy(pool[1]))
        pool.append(dataclasses.replace(pool[2], n=30))
        for name, T in (("A", A), ("D", cl[3]), ("G", G)):
            exp["made " + name] = sorted(k for k, x in enumerate(pool) if isinstance(x, T))
            got["made " + name] = ids(T, pool)
        originals = pool[:3]
        pool[0] = pool[1] = pool[2] = None
        del originals
        gc.collect()
        for name, T in (("A", A), ("D", cl[3]), ("G", G)):
            exp["originals dropped " + name] = sorted(k for k, x in enumerate(pool) if x is not None and isinstance(x, T))
            got["originals dropped " + name] = ids(T, pool)
        # objects read back from their data access objects
        from krrood.ormatic.dao import to_dao
        from test.dataset.example_classes import Position, Position4D, Orientation, Pose
        import test.dataset.ormatic_interface  # noqa  (the generated DAO classes)
        SymbolGraph().clear()
        SymbolGraph()
        objs = [Position(1, 2, 3), Position4D(1, 2, 3, 4), Pose(Position(7, 8, 9), Orientation(0, 0, 0, 1))]
        back = [to_dao(o).from_dao() for o in objs]
        pool2 = objs + [objs[2].position, objs[2].orientation] + back + [back[2].position, back[2].orientation]
        for name, T in (("Position", Position), ("Position4D", Position4D), ("Pose", Pose), ("Orientation", Orientation)):
            exp["from_dao " + name] = sorted(k for k, x in enumerate(pool2) if isinstance(x, T))
            got["from_dao " + name] = ids(T, pool2)
        del objs
        for k in (0, 1, 2, 3, 4):
            pool2[k] = None
        gc.collect()
        for name, T in (("Position", Position), ("Pose", Pose)):
            exp["from_dao, originals dropped " + name] = sorted(k for k, x in enumerate(pool2) if x is not None and isinstance(x, T))
            got["from_dao, originals dropped " + name] = ids(T, pool2)
    elif kind == "predicate":
        IsHeavy = dataclass(eq=False)(type(f"IsHeavy{tag}", (Predicate,), {
            "__annotations__": {"weight": int}, "__call__": lambda self: self.weight > 10}))
        cl, _ = _classes()
        pool = [IsHeavy(20), HasType(1, int), cl[0](n=1, uid=1)]
        for name, T in (("own predicate", IsHeavy), ("HasType", HasType), ("Predicate", Predicate)):
            exp[name] = sorted(k for k, x in enumerate(pool) if isinstance(x, T))
            got[name] = ids(T, pool)
    elif kind == "idattr":
        if payload["variant"] == "getattr":
            Rec = dataclass(eq=False)(type(f"Record{tag}", (Symbol,), {
                "__annotations__": {"name": str}, "name": "", "__getattr__": lambda self, item: None}))
            pool = [Rec("a"), Rec("b"), Rec("c")]
        else:
            Rec = dataclass(eq=False)(type(f"Row{tag}", (Symbol,), {"__annotations__": {"name": str, "_id_": int}, "name": "", "_id_": 7}))
            pool = [Rec("a", 7), Rec("b", 7), Rec("c", 8)]
        exp["all"] = [0, 1, 2]
        got["all"] = ids(Rec, pool)
    elif kind == "nestsel":
        cl, _ = _classes()
        A = cl[0]
        pool = [A(n=0, uid=0), cl[1](n=1, uid=1)]
        x = let(A, None)
        inner = an(entity(x))
        outer = an(set_of([inner])) if payload["form"] == "setof" else an(entity(inner))

        def ev():
            num = {id(o): k for k, o in enumerate(pool) if o is not None}
            rows = list(outer.evaluate())
            vals = [r[inner] for r in rows] if payload["form"] == "setof" else rows
            return sorted(num.get(id(v), -1) for v in vals)

        exp["first"] = [0, 1]
        got["first"] = ev()
        pool.append(cl[3](n=2, uid=2))
        exp["after a creation"] = [0, 1, 2]
        got["after a creation"] = ev()
        pool[0] = None
        gc.collect()
        exp["after a drop"] = [1, 2]
        got["after a drop"] = ev()
        del x, inner, outer
        gc.collect()
        exp["fresh query afterwards"] = [1, 2]
        got["fresh query afterwards"] = ids(A, [o for o in pool])
    elif kind == "samename":
        # two DIFFERENT live classes with the same __module__ and __qualname__ below the queried type (a class factory called
        # twice / a class statement executed again / type(name, ...) called twice)
        Base = dataclass(eq=False)(type(f"Component{tag}", (Symbol,), {"__annotations__": {"n": int}, "n": 0}))

        def factory(weight):
            if payload["variant"] == "factory":
                @dataclass(eq=False)
                class Part(Base):
                    pass
                return Part
            return dataclass(eq=False)(type("Part", (Base,), {}))

        Light, Heavy = factory(1), factory(2)
        Sub = dataclass(eq=False)(type("Part", (Heavy,), {}))        # and one level deeper, same name again
        pool = [Base(1), Light(2), Heavy(3), Light(4), Sub(5)]
        for name, T in (("base", Base), ("first class", Light), ("second class", Heavy), ("third class", Sub)):
            exp[name] = sorted(k for k, x in enumerate(pool) if isinstance(x, T))
            got[name] = ids(T, pool)
        pool[2] = None
        gc.collect()
        exp["after a drop: base"] = [0, 1, 3, 4]
        got["after a drop: base"] = ids(Base, pool)
        exp["registry: base"] = [0, 1, 3, 4]
        num = {id(x): k for k, x in enumerate(pool)}
        got["registry: base"] = sorted(num.get(id(v), -1) for v in SymbolGraph().get_instances_of_type(Base))
    elif kind == "reclass":
        # the class of a live instance is reassigned (obj.__class__ = Sub): it is an instance of the new class from then on
        Task = dataclass(eq=False)(type(f"Task{tag}", (Symbol,), {"__annotations__": {"n": int}, "n": 0}))
        Done = dataclass(eq=False)(type(f"DoneTask{tag}", (Task,), {}))
        Other = dataclass(eq=False)(type(f"Other{tag}", (Symbol,), {"__annotations__": {"n": int}, "n": 0}))
        pool = [Task(0), Other(1), Task(2)]
        pool[0].__class__ = Done
        pool[1].__class__ = Task
        for name, T in (("Task", Task), ("DoneTask", Done), ("Other", Other)):
            exp[name] = sorted(k for k, x in enumerate(pool) if isinstance(x, T))
            got[name] = ids(T, pool)
    elif kind == "virtual":
        # a Symbol class registered as a VIRTUAL subclass (ABC.register) of an abstract Symbol type
        from abc import ABC
        Shape = type(f"Shape{tag}", (Symbol, ABC), {})
        Circle = type(f"Circle{tag}", (Symbol,), {})
        Square = type(f"Square{tag}", (Shape,), {})
        Shape.register(Circle)
        pool = [Circle(), Square(), Circle()]
        for name, T in (("Shape", Shape), ("Circle", Circle), ("Square", Square)):
            exp[name] = sorted(k for k, x in enumerate(pool) if isinstance(x, T))
            got[name] = ids(T, pool)
        exp["explicit domain accepts them"] = [0, 1, 2]
        num = {id(x): k for k, x in enumerate(pool)}
        got["explicit domain accepts them"] = sorted(num.get(id(v), -1) for v in an(entity(let(Shape, list(pool)))).evaluate())
    else:
        raise ValueError(kind)
    del pool
    gc.collect()
    SymbolGraph().remove_dead_instances()
    return {"got": got, "expected": exp}


_RULE_CL = None


def _rule_classes():
    global _RULE_CL
    if _RULE_CL is None:
        from dataclasses import dataclass
        from krrood.entity_query_language.predicate import Symbol

        @dataclass(eq=False)
        class RHandle(Symbol):
            name: str

        @dataclass(eq=False)
        class RBody(Symbol):
            name: str
            handle: RHandle = None
            size: int = 0

        @dataclass(eq=False)
        class RView(Symbol):
            pass

        @dataclass(eq=False)
        class RDrawer(RView):
            handle: RHandle = None
            body: RBody = None

        @dataclass(eq=False)
        class RDoor(RView):
            handle: RHandle = None
            body: RBody = None

        _RULE_CL = (RHandle, RBody, RView, RDrawer, RDoor)
    return _RULE_CL


def run_rules(payload) -> Dict[str, Any]:
    """C20 over RULE queries (conclusions that infer new instances, refinement / alternative branches, a selected inferred
    variable): build, [start an evaluation and abandon it after `abandon` results] [run an evaluation that fails: `fail`],
    evaluate `evaluations` times, drop everything, collect.  Reports per round how many of the instances the
    rule ranged over are still alive, how many instances a fresh domain-less variable still sees, and the graph's nodes."""
    import gc
    import weakref
    from krrood.entity_query_language.conclusion import Add
    from krrood.entity_query_language.entity import let, entity, inference
    from krrood.entity_query_language.rule import refinement, alternative
    from krrood.entity_query_language.quantify_entity import an
    from krrood.entity_query_language.predicate import Symbol
    from krrood.entity_query_language.symbol_graph import SymbolGraph

    RHandle, RBody, RView, RDrawer, RDoor = _rule_classes()
    gc.collect()
    SymbolGraph().clear()
    SymbolGraph()
    rows = []
    for rnd in range(payload["rounds"]):
        handles = [RHandle(f"h{rnd}_{i}") for i in range(3)]
        bodies = [RBody(f"b{rnd}_{i}", handles[i], i) for i in range(3)]
        refs = [weakref.ref(x) for x in handles + bodies]
        body, handle = let(RBody, None), let(RHandle, None)
        if payload["shape"] == "inferred_selected":
            query = an(entity(views := inference(RView)(), body.handle == handle))
        else:
            query = an(entity(views := let(RView, None), body.handle == handle))
        with query:
            Add(views, inference(RDrawer)(handle=handle, body=body))
            if payload["shape"] == "refinement":
                with refinement(body.size > 1):
                    Add(views, inference(RDoor)(handle=handle, body=body))
            elif payload["shape"] == "alternative":
                with alternative(body.size > 5):
                    Add(views, inference(RDoor)(handle=handle, body=body))
        n = []
        if payload.get("abandon") is not None:
            # an evaluation consumed for `abandon` results and then abandoned (iterator dropped, never exhausted, never closed)
            it = iter(query.evaluate())
            part = [next(it) for _ in range(payload["abandon"])]
            refs += [weakref.ref(d) for d in part]
            del it, part
            gc.collect()
        if payload.get("fail"):
            # an evaluation that FAILS half way: a condition raises on the second body (its size is not a number)
            bodies[1].size = None
            try:
                part = []
                it = iter(query.evaluate())
                while True:
                    part.append(next(it))
            except StopIteration:
                failed = False
            except TypeError:
                failed = True
            refs += [weakref.ref(d) for d in part]
            del part, it
            bodies[1].size = 1
            n.append("failed" if failed else "did not fail")
        for _ in range(payload["evaluations"]):
            res = list(query.evaluate())
            n.append(len(res))
            refs += [weakref.ref(d) for d in res]
            del res
        del handles, bodies, body, handle, views, query
        gc.collect()
        visible = len(list(an(entity(let(RHandle, None))).evaluate())) + len(list(an(entity(let(RBody, None))).evaluate())) \
            + len(list(an(entity(let(RView, None))).evaluate()))
        gc.collect()
        SymbolGraph().remove_dead_instances()
        rows.append({"results": n, "alive": sum(1 for r in refs if r() is not None), "visible": visible,
                     "nodes": len(SymbolGraph()._instance_graph.nodes())})
    return {"rows": rows}


def special_jobs(rep: Report, prop: str, payloads: List[dict]) -> Dict[str, int]:
    """run `special` scenarios; got != expected is a violation unless the payload is the witness of a listed open finding
    AND the observation equals the recorded defect behaviour (then it is an instance of that finding)"""
    open_f = {}
    for f in core.load_findings(prop):
        w = json.loads((core.VERIF / f.witness).read_text())
        if "special" in w and f.kind == "open":
            open_f[json.dumps(w["special"], sort_keys=True)] = (f, w)
    _, res = run_jobs([("special", p) for p in payloads], chunk=1, procs=6) if payloads else (None, [])
    inst: Dict[str, int] = {}
    for p, r in zip(payloads, res):
        key = json.dumps(p, sort_keys=True)
        rep.count("special:" + key, True)
        if "fatal" not in r and r["got"] == r["expected"]:
            if key in open_f:
                rep.note(f"finding {open_f[key][0].fid}: witness no longer fails (appears repaired)")
            continue
        if "fatal" not in r and key in open_f and r["got"] == open_f[key][1].get("defect_got"):
            f = open_f[key][0]
            inst[f.fid] = inst.get(f.fid, 0) + 1
            rep.known(f)
            continue
        diff = {k: {"got": r["got"].get(k), "expected": v} for k, v in r.get("expected", {}).items() if r["got"].get(k) != v} if "fatal" not in r else r
        rep.violation({"kind": "counterexample", "special": p, "impl": diff,
                       "python": "import json; from harness import c13\n"
                                 f"print(json.dumps(c13.run_special({p!r}), indent=1))   # run with ./check's PYTHONPATH",
                       "explanation": "let(T, None) does not range over exactly the existing instances of T (numbers = positions in the "
                                      "scenario's pool of objects, -1 = something else); see run_special for the scenario"})
    return inst


def scenario_jobs(rep: Report, kind: str, payloads: List[dict], explanation: str) -> int:
    """run python-level scenario jobs (clone / grow / lateclass); every reported problem is a concrete counterexample"""
    if not payloads:
        return 0
    _, res = run_jobs([(kind, p) for p in payloads], chunk=3)
    bad = 0
    for p, r in zip(payloads, res):
        rep.count(kind + ":" + json.dumps(p, sort_keys=True), True)
        probs = [r["fatal"]] if "fatal" in r else r["problems"]
        if probs:
            bad += 1
            if bad <= 2:
                rep.violation({"kind": "counterexample", kind: p, "impl": probs[:6],
                               "python": "import json; from harness import c13\n"
                                         f"print(json.dumps(c13.run_{kind}({p!r}), indent=1))   # run with ./check's PYTHONPATH",
                               "explanation": explanation})
    rep.extra[kind] = {"cases": len(payloads), "failed": bad}
    return bad


# ------------------------------------------------------------------------------------------------ model side
def op_term(op: list, ob: List[int], out=None) -> str:
    k = op[0]
    if k == "Start":
        return f"StartV {op[1]}"
    if k == "Close":
        return f"CloseV {op[1]}"
    if k == "Next":
        # the row the runtime produced is an input of the operation (like addresses and node indices)
        rows = out[1] if out else []
        y = "None" if not rows else ("(Some None)" if rows[0] < 0 else f"(Some (Some {rows[0]}))")
        return f"NextV {op[1]} {y}"
    if k == "New":
        return f"New {op[1]} {ob[0]} {ob[1]}"
    if k == "Relate":
        return f"Relate {op[1]} {op[2]} {op[3]} {ob[0]} {ob[1]}"
    if k in ("Sweep", "Clear"):
        return k
    if k == "Declare":
        return f"DeclV {op[1]}"
    if k == "QueryE":
        return f"QueryE {op[1]}"     # the query form (variable / attribute / set_of of attributes) does not change the meaning
    if k in ("Eval", "ReEval"):
        return f"EvalV {op[1]}"
    return f"{k} {op[1]}"


def hist_term(hist: List[list], steps: List[dict]) -> str:
    return "[" + "; ".join(op_term(op, st.get("ob", []), st.get("out")) for op, st in zip(hist, steps)) + "]"


def impl_sx(steps: List[dict]) -> str:
    """SL [full trace; property-level trace] exactly in the shape of RegistryRun.trace / RegistrySpecRun.spec_trace."""
    full, ab = [], []
    for st in steps:
        out = st["out"]
        full.append([True, out, [st["census"], st["sizes"], st["rels"], st["nvars"]]])
        cout = [1, sorted(out[1])] if out[0] == 1 else out
        ab.append([cout, st["census"], st["rels"]])
    return core.sx([full, ab])


def classes_of(hist: List[list]) -> List[str]:
    """Decidable input classes outside the proved fragment F:
       K_clear      the graph is re-created."""
    return ["K_clear"] if any(o[0] == "Clear" for o in hist) else []


def well_formed(hist: List[list]) -> bool:
    """Histories the model covers: Eval / Start refer to existing query objects, Next / Close to existing evaluations, and an
    evaluation begun before a Clear is not continued after it (its generator stays bound to the dropped graph)."""
    nq = ne = 0
    begun = set()
    stale = set()
    for o in hist:
        if o[0] in ("QueryE", "Declare"):
            nq += 1
        elif o[0] in ("Eval", "ReEval"):
            if o[1] >= nq:
                return False
        elif o[0] == "Start":
            if o[1] >= nq:
                return False
            ne += 1
        elif o[0] == "Next":
            if o[1] >= ne or o[1] in stale:
                return False
            begun.add(o[1])
        elif o[0] == "Close":
            if o[1] >= ne:
                return False
            begun.discard(o[1])
            stale.discard(o[1])
        elif o[0] == "Clear":
            stale |= begun
    return True


# ------------------------------------------------------------------------------------------------ generation
PROFILES = {
    # name: (weights New Drop Sweep QueryG QueryE Declare Eval Start Next Close Relate Clear)
    "F": (30, 18, 8, 14, 0, 0, 0, 0, 0, 0, 22, 0),
    "Fq": (30, 16, 6, 8, 6, 6, 10, 0, 0, 0, 18, 0),    # complete EQL evaluations interleaved with everything else
    "decl": (28, 16, 8, 6, 0, 12, 14, 0, 0, 0, 14, 0),  # variables declared, the world changes, evaluated (again and again)
    "live": (24, 10, 6, 4, 2, 8, 4, 8, 24, 5, 10, 0),   # live evaluations consumed row by row while the world changes
    "livenodrop": (26, 0, 6, 4, 2, 8, 4, 8, 26, 5, 10, 0),
    "all": (26, 14, 7, 8, 5, 5, 7, 4, 10, 3, 16, 3),
    "churn": (30, 28, 10, 8, 0, 0, 0, 0, 0, 0, 24, 0),
}
OPS = ["New", "Drop", "Sweep", "QueryG", "QueryE", "Declare", "Eval", "Start", "Next", "Close", "Relate", "Clear"]


def gen_history(rng: core.Rng, profile: str, nmin=4, nmax=16) -> List[list]:
    w = PROFILES[profile]
    bag = [o for o, k in zip(OPS, w) for _ in range(k)]
    n = rng.randint(nmin, nmax)
    user: List[int] = []
    nnew = 0
    nq = 0
    ne = 0
    open_e: List[int] = []      # evaluations not closed yet (possibly exhausted: a further Next just ends again)
    begun: set = set()
    stale: set = set()
    hist: List[list] = []
    qforms: List[Any] = []
    clss = [0, 1, 2, 3, 4, 5, 6, 7, 3, 5, 0, 8, 8, 9]
    if profile.startswith("live"):
        # some instances, a query object and a live evaluation to start with
        for _ in range(rng.randint(1, 4)):
            hist.append(["New", rng.choice(clss)])
            user.append(nnew)
            nnew += 1
        hist.append(["Declare", rng.choice([0, 0, 1, 2, 8])] + rng.choice([[], [], ["attr"], ["setof"]]))
        qforms.append(hist[-1][2] if len(hist[-1]) > 2 else None)
        nq = 1
        hist.append(["Start", 0])
        open_e.append(0)
        ne = 1
        n += len(hist)
    while len(hist) < n:
        k = rng.choice(bag)
        if k == "New":
            hist.append(["New", rng.choice(clss)])
            user.append(nnew)
            nnew += 1
        elif k == "Drop":
            if not user:
                continue
            hist.append(["Drop", user.pop(rng.next() % len(user))])
        elif k == "Sweep":
            hist.append(["Sweep"])
        elif k in ("QueryG", "QueryE", "Declare"):
            o = [k, rng.choice(QUERY_TYPES)]
            if k != "QueryG":
                nq += 1
                f = rng.next() % 20       # 50% the variable itself, 15% an attribute, 10% a set_of of attributes, 25% nested forms
                if f >= 10:
                    o.append("attr" if f < 13 else ("setof" if f < 15 else ("nested" if f < 17 else ("nestsel" if f < 19 else "nestent"))))
                qforms.append(o[2] if len(o) > 2 else None)
            hist.append(o)
        elif k == "Eval":
            if nq == 0:
                continue
            hist.append(["Eval", rng.next() % nq])
        elif k == "Start":
            # row-by-row consumption is modelled for the forms with ONE domain-less variable and no nested query
            cand = [q for q in range(nq) if qforms[q] not in ("nested", "nestsel", "nestent")]
            if not cand:
                continue
            hist.append(["Start", rng.choice(cand)])
            open_e.append(ne)
            ne += 1
        elif k == "Next":
            cand = [e for e in open_e if e not in stale]
            if not cand:
                continue
            e = rng.choice(cand)
            hist.append(["Next", e])
            begun.add(e)
        elif k == "Close":
            if not open_e:
                continue
            e = open_e.pop(rng.next() % len(open_e))
            hist.append(["Close", e])
            begun.discard(e)
            stale.discard(e)
        elif k == "Relate":
            if not user:
                continue
            hist.append(["Relate", rng.choice(user), rng.next() % 2, rng.choice(user)])
        elif k == "Clear":
            hist.append(["Clear"])
            stale |= begun
    return hist


def exhaustive(depth: int) -> List[List[list]]:
    """All valid histories up to `depth` over a tiny alphabet (classes A and D, queries on A and C, one field)."""
    out: List[List[list]] = []

    def rec(h, user, nnew, nq=0, live=False):
        if h:
            out.append(list(h))
        if len(h) == depth:
            return
        for c in (0, 3):
            rec(h + [["New", c]], user + [nnew], nnew + 1, nq, live)
        for o in user:
            rec(h + [["Drop", o]], [u for u in user if u != o], nnew, nq, live)
        if nq == 0 and len(h) <= depth - 3:
            rec(h + [["Declare", 0]], user, nnew, 1, live)   # one variable, declared early enough to matter
        if nq == 1 and not live:
            rec(h + [["Eval", 0]], user, nnew, nq, live)      # complete evaluations (any number of them)
            if len(h) <= depth - 2:
                rec(h + [["Start", 0]], user, nnew, nq, True)  # or one evaluation consumed row by row
        if live:
            rec(h + [["Next", 0]], user, nnew, nq, live)
        if nnew:
            rec(h + [["Sweep"]], user, nnew, nq, live)
            for t in (0, 2):
                rec(h + [["QueryG", t]], user, nnew, nq, live)
            for a in user:
                for b in user:
                    rec(h + [["Relate", a, 0, b]], user, nnew, nq, live)
    rec([], [], 0)
    # every prefix's observations are part of the trace of its extensions
    return [h for h in out if len(h) == depth]


def snippet(hist) -> str:
    return ("import json; from harness import c13\n"
            f"print(json.dumps(c13.run_history({hist!r}), indent=1))   # run with ./check's PYTHONPATH")


# ------------------------------------------------------------------------------------------------ decision
def decide(rep: Report, prop: str, hists: List[List[list]], model_ok: bool, focus: str,
           accept: Dict[str, str], tags: Optional[List[str]] = None):
    """Run histories on the implementation, classify inside Coq, apply DESIGN section 5.
    accept: class name -> finding id for the classes whose divergence from the Spec is a listed known finding.
    Returns (results, codes, header, counts of known-finding instances)."""
    tbl, results = run_jobs([("hist", h) for h in hists])
    hd = header(tbl, spec_only=not model_ok)
    pairs, idxs = [], []
    for n, (h, r) in enumerate(zip(hists, results)):
        steps = r.get("steps", [])
        if "fatal" in r or not steps or "exc" in steps[-1]:
            rep.violation({"kind": "counterexample", "case": h, "impl": r, "python": snippet(h),
                           "explanation": "the implementation raised during a valid history"})
            continue
        pairs.append((hist_term(h, steps), impl_sx(steps)))
        idxs.append(n)
    codes_l = core.coq_codes(prop, hd, "list op", "code", pairs, chunk=150) if pairs else []
    codes: Dict[int, int] = dict(zip(idxs, codes_l))
    inst: Dict[str, int] = {}
    nviol = 0
    for n, h in enumerate(hists):
        if n not in codes:
            continue
        code = codes[n]
        ks = classes_of(h)
        kinds = {o[0] for o in h}
        rep.count(json.dumps(h), len(kinds) >= 3 and len(h) >= 4)
        if code == 0:
            continue
        if code == 2 and ks and all(k in accept for k in ks):
            for k in ks:
                inst[accept[k]] = inst.get(accept[k], 0) + 1
            continue
        if code == 1 and not model_ok:
            continue
        nviol += 1
        if nviol > 4:
            continue
        detail: Dict[str, Any] = {}
        try:
            term = hist_term(h, results[n]["steps"])
            exprs = [f"itrace {term}"] + ([f"mtrace {term}"] if model_ok else [])
            vals = core.coq_eval_sx(prop, hd, exprs)
            detail = {"spec": vals[0], "model": vals[1] if model_ok else None}
        except Exception as e:  # noqa
            detail = {"spec": f"<{e}>"}
        what = {1: "implementation meets the Spec but the model differs (model stale: correspondence broken)",
                2: "implementation differs from the Spec exactly as the model predicts, outside the listed finding classes",
                3: "implementation differs from both the Spec and the model"}[code]
        if code == 1:
            rep.oblige("correspondence:model", False, json.dumps(h))
        rep.violation(dict({"kind": "counterexample", "case": h, "classes": ks, "code": code, "impl": results[n],
                            "python": snippet(h),
                            "explanation": what + "; trace entries: [admissible, output, [census, sizes(nodes, by_id, by_class, edges, rel_index), relations, #variables]]; spec entries: [output (query sorted), existing instances, relations]"},
                           **detail))
    return results, codes, hd, inst


def distribution(hists) -> Dict[str, Any]:
    d: Dict[str, int] = {}
    lens: Dict[int, int] = {}
    cls: Dict[str, int] = {"F": 0}
    for h in hists:
        lens[len(h)] = lens.get(len(h), 0) + 1
        for o in h:
            d[o[0]] = d.get(o[0], 0) + 1
        ks = classes_of(h)
        if not ks:
            cls["F"] += 1
        for k in ks:
            cls[k] = cls.get(k, 0) + 1
    return {"ops": d, "lengths": dict(sorted(lens.items())), "classes": cls}


def reuse_stats(hists, results) -> Dict[str, int]:
    """How often the runtime actually reused a node index / an address inside a history (what the property is about)."""
    idx_reuse = addr_reuse = 0
    for h, r in zip(hists, results):
        seen_i, seen_p = set(), set()
        ri = rp = False
        for op, st in zip(h, r.get("steps", [])):
            if op[0] == "New" and st.get("ob"):
                p, i = st["ob"]
                ri |= i in seen_i
                rp |= p in seen_p
                seen_i.add(i)
                seen_p.add(p)
        idx_reuse += ri
        addr_reuse += rp
    return {"histories_with_index_reuse": idx_reuse, "histories_with_address_reuse": addr_reuse}


def replay_findings(rep: Report, prop: str, model_ok: bool, accept_all: Dict[str, str]):
    """Step 5: replay the witnesses of the listed findings of `prop` (one worker, one Coq evaluation)."""
    fs = [f for f in core.load_findings(prop) if "case" in json.loads((core.VERIF / f.witness).read_text())]
    if not fs:
        return
    ws = [json.loads((core.VERIF / f.witness).read_text()) for f in fs]
    tbl, results = run_jobs([("hist", w["case"]) for w in ws])
    hd = header(tbl, spec_only=not model_ok)
    pairs, ok_idx = [], []
    for n, (w, r) in enumerate(zip(ws, results)):
        steps = r.get("steps", [])
        if not steps or "exc" in steps[-1]:
            rep.violation({"kind": "counterexample", "case": w["case"], "impl": r, "finding": fs[n].fid,
                           "python": snippet(w["case"]), "explanation": "witness of a listed finding now raises"})
            continue
        pairs.append((hist_term(w["case"], steps), impl_sx(steps)))
        ok_idx.append(n)
    codes = core.coq_codes(prop, hd, "list op", "code", pairs, tag="kf") if pairs else []
    for n, code in zip(ok_idx, codes):
        f, w = fs[n], ws[n]
        rep.count("kf:" + f.fid, True)
        if f.kind == "open":
            if code == 2 or (code == 3 and not model_ok):
                rep.known(f)
            elif code == 0:
                rep.note(f"finding {f.fid}: witness no longer fails (appears repaired)")
            else:
                rep.violation({"kind": "counterexample", "case": w["case"], "impl": results[n], "finding": f.fid, "code": code,
                               "python": snippet(w["case"]),
                               "explanation": "witness of a listed finding fails differently from what the model predicts"})
        elif code != 0:
            rep.violation({"kind": "counterexample", "case": w["case"], "impl": results[n], "finding": f.fid, "code": code,
                           "python": snippet(w["case"]),
                           "explanation": f"regression: the defect repaired by {f.commit} is back"})


ACCEPT = {"K_clear": "C13-d"}
TRUSTED = [
    "source pins pins/registry.json (35 methods mirrored by the hand model but not translated: Variable domain plumbing, HashedIterable / "
    "HashedValue identity, let / entity / an, SymbolicExpression / RWXNode registration, WrappedInstance.__eq__/__hash__)",
    "translator/t_registry.py (fail-closed statement-idiom translator: symbol_graph.py, utils.recursive_subclasses, predicate.Symbol.__new__, "
    "entity let-domain, hashed_data.__iter__, symbolic evaluate, singleton -> Gen/Registry.v) and its idiom table Onto/RegistryIdioms.v",
    "hand-written model of symbol_graph.py / recursive_subclasses / Symbol.__new__ / let(T,None)+evaluate (Onto/Registry.v), "
    "tied by differential execution on histories with the observed addresses and node indices fed to the model",
    "harness/c13.py: implementation driver (worker subprocesses, weak-reference census, read-only inspection of "
    "SymbolGraph._instance_graph/_instance_index/_class_to_wrapped_instances/_relation_index and len(_id_expression_map_)), canonicaliser",
    "class hierarchy table is read from cls.__subclasses__() of the harness classes and passed to model and Spec",
]
ASSUME = [
    "CPython: an object without remaining strong references is reclaimed by gc.collect() and its weak references are cleared; "
    "id() of simultaneously existing objects differ",
    "rustworkx: add_node returns an index not currently in use; remove_node drops the incident edges",
    "an evaluation consumed row by row (Start / Next / Close) that was begun before a SymbolGraph().clear() is not continued "
    "after it (its generator stays bound to the dropped graph; such histories are not generated and are inadmissible in the model); "
    "an iterator the program drops is finalised at once (CPython reference counting), i.e. Close",
]


def proof_steps(rep: Report, prop: str) -> bool:
    """Steps 1-3 (regenerate Gen/Registry.v from the source, build the proofs, Print Assumptions) and the build of the
    executable model used by the correspondence.  Returns whether the model can be evaluated (it does not depend on the
    generated file, so a refused translation or a broken proof still leaves the model-vs-implementation search running)."""
    from translator import t_registry
    core.standard_proof_steps(
        rep, prop, [f"Props/{prop}.vo"],
        regen=[("Gen/Registry.v", lambda: t_registry.translate(str(core.REPO)), core.COQ / "Gen" / "Registry.v")])
    # methods the hand model mirrors that the translator does not regenerate (variable / domain plumbing, the process-wide
    # expression tables, wrapper equality): their source is pinned
    from translator import pins
    pins.oblige(rep, str(core.REPO), "registry", "Onto/Registry.v (query variables, domain cache, expression tables)")
    ok, log = core.coq_make(["Onto/RegistryRun.vo"])
    rep.oblige("build:Onto/RegistryRun.vo", ok, "" if ok else core.first_error(log))
    if rep.tier == "thorough" and not rep.open_obligations():
        # second, independent checker on the compiled theorems
        rc, out = core.sh(["timeout", "900", "coqchk", "-silent", "-o", "-Q", ".", "Krrood", f"Krrood.Props.{prop}"],
                          cwd=core.COQ, timeout=930)
        clean = rc == 0 and "* Axioms: <none>" in out
        rep.oblige(f"coqchk:Props/{prop}.vo", clean, "" if clean else out[-400:])
    return ok


def gen_cases(tier: str, seed: int, mix: Sequence[Tuple[str, int]], depth: int) -> List[List[list]]:
    rng = core.Rng(seed)
    hists = exhaustive(depth)
    for tag, (prof, n) in enumerate(mix):
        r = rng.fork(tag + 1)
        for _ in range(n):
            hists.append(gen_history(r, prof, 4, 16 if tier == "quick" else 28))
    return hists


def corpus_cases(prop: str) -> List[List[list]]:
    d = core.VERIF / "corpus" / prop
    out = []
    if d.is_dir():
        for f in sorted(d.glob("*.json")):
            if f.name.startswith("kf_") or f.name.startswith("fx_"):
                continue  # witnesses of findings are replayed separately
            out.append(json.loads(f.read_text())["case"])
    return out


def run(tier: str, seed: int, replay=None) -> int:
    rep = Report(PROP, tier, seed, "proof")
    rep.trusted = core.COQ_TRUSTED + TRUSTED
    rep.assume = ASSUME
    rep.rule = ("corpus + all valid histories of length 4 (quick) / 5 (thorough) over {New A, New D, Drop, Sweep, QueryG A/C, Relate, Declare A (once, early), Eval, Start (once), Next} "
                "+ seeded random histories (4..16 ops quick, 4..28 thorough) over 8 classes (tree + diamond + value-equal class) "
                "in profiles F / churn (no Clear, no EQL query), Fq / decl (variables declared by let(T, None), the world changed by New / Drop / "
                "Sweep / Relate, evaluated later and again; fused QueryE), live / livenodrop (evaluations consumed row by row -- Start, Next, "
                "Close -- interleaved with everything else) and all (all of it plus Clear); non-trivial = >= 4 ops of >= 3 kinds; "
                "distinct = distinct history")
    ok_spec, log = core.coq_make(["Base/Sx.vo", "Onto/RegistrySpec.vo", "Onto/RegistrySpecRun.vo"])
    rep.oblige("build:spec", ok_spec, "" if ok_spec else core.first_error(log))
    model_ok = proof_steps(rep, PROP)
    if replay and replay.get("case") is not None:
        hists = [replay["case"]]
    else:
        n = 1 if tier == "quick" else 12
        hists = corpus_cases(PROP) + gen_cases(tier, seed, [("F", 300 * n), ("churn", 200 * n), ("Fq", 200 * n), ("decl", 250 * n), ("live", 250 * n), ("livenodrop", 150 * n), ("all", 300 * n)],
                                               4 if tier == "quick" else 5)
    if not model_ok:
        rep.note("model not available; comparing the implementation with the Spec only (search for a failing input)")
    results, codes, hd, inst = decide(rep, PROP, hists, model_ok, "query", ACCEPT)
    rep.extra["distribution"] = distribution(hists)
    rep.extra["reuse"] = reuse_stats(hists, results)
    rep.extra["known_finding_instances"] = inst
    rep.extra["codes"] = {str(c): list(codes.values()).count(c) for c in (0, 1, 2, 3)}
    # scenario families outside the history machine: the class hierarchy / the expression tree grows between evaluations
    if replay and replay.get("lateclass") is not None:
        late, grow = [replay["lateclass"]], []
    elif replay and replay.get("grow") is not None:
        late, grow = [], [replay["grow"]]
    elif replay:
        late, grow = [], []
    else:
        late = [{"T": t, "parent": p} for t, p in ((0, 0), (0, 1), (1, 3), (2, 3), (6, 6), (0, 7), (0, 5))]
        grow = [{"rounds": 2, "extend_after": e, "evaluations": n} for e, n in ((0, 2), (1, 1), (2, 2))]
    if replay and replay.get("special") is not None:
        specials = [replay["special"]]
    elif replay:
        specials = []
    else:
        specials = [{"kind": "paths"}, {"kind": "predicate"}, {"kind": "idattr", "variant": "getattr"},
                    {"kind": "idattr", "variant": "field"}, {"kind": "nestsel", "form": "setof"}, {"kind": "nestsel", "form": "entity"},
                    {"kind": "samename", "variant": "factory"}, {"kind": "samename", "variant": "type"}, {"kind": "virtual"}]
        # {"kind": "reclass"} is available for replay only: reassigning obj.__class__ is not one of the history operations the
        # property quantifies over (dismissed in round 7, see the manifest note)
    for fid, k in special_jobs(rep, PROP, specials).items():
        inst[fid] = inst.get(fid, 0) + k
    scenario_jobs(rep, "lateclass", late, "a subclass of T defined AFTER a domain-less variable over T was evaluated: its instances "
                  "have to be in the range of every later evaluation over T")
    scenario_jobs(rep, "grow", grow, "one query object evaluated, extended with a conclusion that introduces a new domain-less variable, "
                  "evaluated again, everything dropped: later domain-less variables must not range over the dropped instances")
    rep.samples = [{"case": h, "impl_last": r.get("steps", [{}])[-1]} for h, r in list(zip(hists, results))[:: max(1, len(hists) // 5)]][:5]
    if not (replay and replay.get("case") is not None):
        replay_findings(rep, PROP, model_ok, ACCEPT)
    return rep.finish()


if __name__ == "__main__":
    if "--worker" in sys.argv:
        _worker_main()
