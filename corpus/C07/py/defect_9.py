"""
None as an element of the collection of in_: `in_(o.w, [None, 2.0])` holds for w = None in Python, SQL's
`w IN (NULL, 2.0)` never matches NULL.
Run: PYTHONPATH=/repo/src:/repo /venv/bin/python defect_9.py   (exits 1 while the defect is present)
"""
import datetime
import sys
import warnings

warnings.filterwarnings("ignore")

from sqlalchemy.orm import Session, configure_mappers

from krrood.entity_query_language.entity import let, entity, and_, or_, in_, contains
from krrood.entity_query_language.quantify_entity import an, the
from krrood.entity_query_language.symbol_graph import SymbolGraph
from krrood.ormatic.dao import to_dao, ToDAOState
from krrood.ormatic.eql_interface import eql_to_sql, EQLTranslationError
from krrood.ormatic.utils import create_engine
from test.dataset.example_classes import *
from test.dataset.semantic_world_like_classes import *
from test.dataset.ormatic_interface import Base

SymbolGraph()
configure_mappers()


def database(objects):
    engine = create_engine("sqlite:///:memory:")
    session = Session(engine)
    Base.metadata.create_all(engine)
    state = ToDAOState()
    session.add_all([to_dao(o, state) for o in objects])
    session.commit()
    return session


FAILED = False


def compare(name, in_memory_query, sql_query, session, key, as_set=False):
    """The SQL statement must select what in-memory evaluation selects, or the translator must reject the query."""
    global FAILED
    expected = sorted(key(x) for x in in_memory_query.evaluate())
    try:
        translator = eql_to_sql(sql_query, session)
        got = sorted(key(x) for x in translator.evaluate())
    except EQLTranslationError as error:
        print(f"ok   [{name}] rejected with {type(error).__name__}")
        return
    except Exception as error:
        FAILED = True
        print(f"FAIL [{name}]")
        print(f"   expected : {expected} (or an EQLTranslationError)")
        print(f"   happened : {type(error).__name__}: {str(error)[:160]}")
        return
    if as_set:
        expected, got = sorted(set(expected)), sorted(set(got))
    if expected == got:
        print(f"ok   [{name}] {got}")
    else:
        FAILED = True
        print(f"FAIL [{name}]")
        print(f"   expected (in memory): {expected}")
        print(f"   happened (SQL)      : {got}")
        print(f"   statement: ...{str(translator.sql_query)[-230:]}")


def connection_key(c):
    return (type(c).__name__.replace("DAO", ""), c.parent.name, c.child.name)


orientations = [Orientation(0, 0, 0, None), Orientation(1, 0, 0, 0.5), Orientation(2, 1, 1, 2.0)]
session = database(orientations)
key = lambda o: (o.x, o.w)
for name, values in [("[None, 2.0]", [None, 2.0]), ("[None]", [None]), ("[2.0] (control)", [2.0])]:
    o = let(Orientation, domain=orientations)
    p = let(Orientation, domain=None)
    compare(f"in_(o.w, {name})", an(entity(o, in_(o.w, values))), an(entity(p, in_(p.w, values))), session, key)


sys.exit(1 if FAILED else 0)
