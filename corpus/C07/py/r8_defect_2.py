"""C07 defect 2: a literal the database driver cannot bind is accepted, and the statement then fails when executed."""
import logging, sys, warnings
warnings.filterwarnings("ignore"); logging.disable(logging.CRITICAL)
from sqlalchemy import create_engine
from sqlalchemy.orm import Session, configure_mappers
from krrood.entity_query_language.entity import let, entity, and_, or_, in_, contains
from krrood.entity_query_language.quantify_entity import an, the
from krrood.ormatic.dao import to_dao
from krrood.ormatic.eql_interface import eql_to_sql, EQLTranslationError
from test.dataset.ormatic_interface import Base


def database():
    configure_mappers()
    engine = create_engine("sqlite:///:memory:")
    Base.metadata.create_all(engine)
    return Session(engine)


def compare(label, make_query, objects, session, row_of):
    """Returns True if the translated query is rejected or selects the rows in-memory evaluation selects."""
    in_memory = sorted(row_of[id(o)] for o in make_query(objects).evaluate())
    try:
        translator = eql_to_sql(make_query(None), session)
    except EQLTranslationError as error:
        print(f"{label}: rejected ({error}) - fine")
        return True
    try:
        in_database = sorted(row.database_id for row in translator.evaluate())
    except Exception as error:
        print(f"{label}: expected rows {in_memory} or an EQLTranslationError; "
              f"the accepted statement failed with {type(error).__name__}: {str(error)[:120]}")
        return False
    print(f"{label}: expected rows {in_memory} (in memory), the SQL statement returned {in_database}")
    return in_memory == in_database


from test.dataset.semantic_world_like_classes import Body
from test.dataset.example_classes import Element

bodies = [Body("a", 1), Body("b", 2)]
session = database()
daos = [to_dao(b) for b in bodies]
session.add_all(daos)
session.commit()
row_of = {id(b): d.database_id for b, d in zip(bodies, daos)}

ok = True
for label, literal in [("size == 2**70", 2**70), ("size == Element.C (an Enum member)", Element.C),
                       ("size == (1,)", (1,)), ("size == 1+0j", 1 + 0j)]:
    ok &= compare(label, lambda d, v=literal: an(entity(b := let(Body, domain=d), b.size == v)), bodies, session, row_of)
print("PASS" if ok else "FAIL")
sys.exit(0 if ok else 1)
