"""
Calling the public EQLTranslator.translate() a second time: the select is rebuilt but the join bookkeeping is kept,
so the relationship join is missing in the new statement (cartesian product) and every row is selected.
Run: PYTHONPATH=/repo/src:/repo /venv/bin/python defect_7.py   (exits 1 while the defect is present)
"""
import datetime
import sys
import warnings

warnings.filterwarnings("ignore")

from sqlalchemy.orm import Session, configure_mappers

from krrood.entity_query_language.entity import let, entity, and_, or_, in_, contains
from krrood.entity_query_language.quantify_entity import an, the
from krrood.entity_query_language.symbol_graph import SymbolGraph
from krrood.ormatic.dao import to_dao, ToDAOState
from krrood.ormatic.eql_interface import eql_to_sql, EQLTranslationError
from krrood.ormatic.utils import create_engine
from test.dataset.example_classes import *
from test.dataset.semantic_world_like_classes import *
from test.dataset.ormatic_interface import Base

SymbolGraph()
configure_mappers()


def database(objects):
    engine = create_engine("sqlite:///:memory:")
    session = Session(engine)
    Base.metadata.create_all(engine)
    state = ToDAOState()
    session.add_all([to_dao(o, state) for o in objects])
    session.commit()
    return session


FAILED = False


def compare(name, in_memory_query, sql_query, session, key, as_set=False):
    """The SQL statement must select what in-memory evaluation selects, or the translator must reject the query."""
    global FAILED
    expected = sorted(key(x) for x in in_memory_query.evaluate())
    try:
        translator = eql_to_sql(sql_query, session)
        got = sorted(key(x) for x in translator.evaluate())
    except EQLTranslationError as error:
        print(f"ok   [{name}] rejected with {type(error).__name__}")
        return
    except Exception as error:
        FAILED = True
        print(f"FAIL [{name}]")
        print(f"   expected : {expected} (or an EQLTranslationError)")
        print(f"   happened : {type(error).__name__}: {str(error)[:160]}")
        return
    if as_set:
        expected, got = sorted(set(expected)), sorted(set(got))
    if expected == got:
        print(f"ok   [{name}] {got}")
    else:
        FAILED = True
        print(f"FAIL [{name}]")
        print(f"   expected (in memory): {expected}")
        print(f"   happened (SQL)      : {got}")
        print(f"   statement: ...{str(translator.sql_query)[-230:]}")


def connection_key(c):
    return (type(c).__name__.replace("DAO", ""), c.parent.name, c.child.name)


x, y, z = Body("x"), Body("y", 2), Body("z", 3)
connections = [FixedConnection(x, y), FixedConnection(y, z), PrismaticConnection(z, x)]
session = database([World(1, [x, y, z], connections)])
c = let(Connection, domain=connections)
expected = sorted(connection_key(k) for k in an(entity(c, c.parent.name == "y")).evaluate())
d = let(Connection, domain=None)
translator = eql_to_sql(an(entity(d, d.parent.name == "y")), session)
first = sorted(connection_key(k) for k in translator.evaluate())
translator.translate()
second = sorted(set(connection_key(k) for k in translator.evaluate()))
print("expected (in memory)      :", expected)
print("after eql_to_sql          :", first)
print("after a second translate():", second)
if first != expected or second != expected:
    FAILED = True
    print("FAIL: the statement of the second translation selects other rows")


sys.exit(1 if FAILED else 0)
