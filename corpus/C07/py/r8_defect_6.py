"""C07 defect 6 (regression of 628ff00): an Enum member as a value in a condition - in-memory evaluation raises TypeError
('Element' object is not iterable) because is_iterable finds the metaclass's __iter__; the SQL side selects the rows."""
import logging, sys, warnings
warnings.filterwarnings("ignore"); logging.disable(logging.CRITICAL)
from krrood.entity_query_language.entity import let, entity
from krrood.entity_query_language.quantify_entity import an
from krrood.entity_query_language.utils import is_iterable
from test.dataset.example_classes import Atom, Element


class CatchAll:
    def __getattr__(self, name):
        return lambda *a, **k: iter(())


atoms = [Atom(Element.C, 1, 0), Atom(Element.H, 2, 1)]
ok = True
try:
    rows = list(an(entity(a := let(Atom, domain=atoms), a.element == Element.C)).evaluate())
    print("a.element == Element.C in memory:", rows)
    ok = ok and rows == [atoms[0]]
except Exception as error:
    print(f"a.element == Element.C in memory: expected [Atom(C)], raised {type(error).__name__}: {error}")
    ok = False
print("is_iterable(Element.C) =", is_iterable(Element.C), "| is_iterable(CatchAll()) =", is_iterable(CatchAll()),
      "| is_iterable([1]) =", is_iterable([1]), "| is_iterable(iter([1])) =", is_iterable(iter([1])))
ok = ok and not is_iterable(Element.C) and not is_iterable(CatchAll()) and is_iterable([1]) and is_iterable(iter([1])) and is_iterable({1: 2}) and not is_iterable("ab")
print("PASS" if ok else "FAIL")
sys.exit(0 if ok else 1)
