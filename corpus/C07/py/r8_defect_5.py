"""C07 defect 5: a one-shot iterator as the container of in_ is consumed while translating; the statement searches an empty list."""
import logging, sys, warnings
warnings.filterwarnings("ignore"); logging.disable(logging.CRITICAL)
from sqlalchemy import create_engine
from sqlalchemy.orm import Session, configure_mappers
from krrood.entity_query_language.entity import let, entity, and_, or_, in_, contains
from krrood.entity_query_language.quantify_entity import an, the
from krrood.ormatic.dao import to_dao
from krrood.ormatic.eql_interface import eql_to_sql, EQLTranslationError
from test.dataset.ormatic_interface import Base


def database():
    configure_mappers()
    engine = create_engine("sqlite:///:memory:")
    Base.metadata.create_all(engine)
    return Session(engine)


def compare(label, make_query, objects, session, row_of):
    """Returns True if the translated query is rejected or selects the rows in-memory evaluation selects."""
    in_memory = sorted(row_of[id(o)] for o in make_query(objects).evaluate())
    try:
        translator = eql_to_sql(make_query(None), session)
    except EQLTranslationError as error:
        print(f"{label}: rejected ({error}) - fine")
        return True
    try:
        in_database = sorted(row.database_id for row in translator.evaluate())
    except Exception as error:
        print(f"{label}: expected rows {in_memory} or an EQLTranslationError; "
              f"the accepted statement failed with {type(error).__name__}: {str(error)[:120]}")
        return False
    print(f"{label}: expected rows {in_memory} (in memory), the SQL statement returned {in_database}")
    return in_memory == in_database


from test.dataset.example_classes import Position

positions = [Position(1, 0, 0), Position(1, 0, 1), Position(2, 0, 0), Position(3, 0, 0)]
session = database()
daos = [to_dao(p) for p in positions]
session.add_all(daos)
session.commit()
row_of = {id(p): d.database_id for p, d in zip(positions, daos)}

make = lambda d: an(entity(p := let(Position, domain=d), in_(p.x, iter([1, 2]))))
ok = compare("in_(position.x, iter([1, 2]))", make, positions, session, row_of)
try:
    print(eql_to_sql(make(None), session).sql_query.whereclause.compile(compile_kwargs={"literal_binds": True}))
except Exception:
    pass
print("PASS" if ok else "FAIL")
sys.exit(0 if ok else 1)
