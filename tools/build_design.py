"""Splice tools/design_section0.md.src (section 0 "As built", with the seeded-changes table regenerated from
seeded/*/result.json) into DESIGN.md."""
import subprocess
d = open("DESIGN.md").read()
sec = open("tools/design_section0.md.src").read()
table = subprocess.run(["python3", "tools/seeded_table.py"], stdout=subprocess.PIPE, text=True).stdout
sec = sec.replace("SEEDED_TABLE", "<!-- SEEDED_TABLE_BEGIN -->\n" + table + "<!-- SEEDED_TABLE_END -->\n")
marker = "---------------------------------------------------------------------------------------------------\n\n## 1. What is being built"
i, j = d.index("## 0. As built"), d.index(marker)
open("DESIGN.md", "w").write(d[:i] + sec + "\n" + d[j:])
print("DESIGN.md section 0 rebuilt")
