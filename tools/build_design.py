"""Splice tools/design_section0.md.src (section 0 "As built", with the seeded-changes table regenerated from
seeded/*/result.json) into DESIGN.md."""
import subprocess
d = open("DESIGN.md").read()
sec = open("tools/design_section0.md.src").read()
table = subprocess.run(["python3", "tools/seeded_table.py"], stdout=subprocess.PIPE, text=True).stdout
import re
from pathlib import Path


def findings(prop):
    """(open ids, {commit: [fixed ids]}) from known_findings/<prop>.txt"""
    f = Path("known_findings") / f"{prop}.txt"
    opens, fixed = [], {}
    for line in f.read_text().splitlines() if f.exists() else []:
        m = re.match(r"KNOWN-FINDING: property=\S+ id=(\S+)", line)
        if m:
            opens.append(m.group(1))
        m = re.match(r"fixed: property=\S+ (\S+) id=(\S+)", line)
        if m:
            fixed.setdefault(m.group(1), []).append(m.group(2))
    return opens, fixed


def short(ids, prop):
    """C01-a, C01-b -> C01-a,b (ids of another property are kept whole)"""
    own = [i.split("-", 1)[1] for i in ids if i.startswith(prop + "-")]
    other = [i for i in ids if not i.startswith(prop + "-")]
    return ", ".join(([f"{prop}-" + ",".join(own)] if own else []) + other)


for n in range(1, 21):
    prop = f"C{n:02d}"
    opens, fixed = findings(prop)
    sec = sec.replace("{{OPEN:%s}}" % prop, short(opens, prop) or "–")
    sec = sec.replace("{{FIXED:%s}}" % prop, "; ".join(f"{short(v, prop)} {k}" for k, v in fixed.items()) or "–")
nfix = subprocess.run("git -C /repo log --oneline | grep -c ' fix:'", shell=True, stdout=subprocess.PIPE, text=True).stdout.strip()
sec = sec.replace("{{NFIX}}", nfix)
sec = sec.replace("{{NSEED}}", str(len([d for d in Path("seeded").iterdir() if (d / "meta.json").exists()])))
sec = sec.replace("SEEDED_TABLE", "<!-- SEEDED_TABLE_BEGIN -->\n" + table + "<!-- SEEDED_TABLE_END -->\n")
marker = "---------------------------------------------------------------------------------------------------\n\n## 1. What is being built"
i, j = d.index("## 0. As built"), d.index(marker)
open("DESIGN.md", "w").write(d[:i] + sec + "\n" + d[j:])
print("DESIGN.md section 0 rebuilt")
