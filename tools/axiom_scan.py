"""Scan one .v file: fail (exit 1) if it declares an axiom or leaves something admitted.
Variable/Hypothesis/Context are allowed only inside a Section (they become premises of the closed theorems)."""
import re
import sys

text = open(sys.argv[1]).read()
# strip comments (nested)
out, depth, i = [], 0, 0
while i < len(text):
    if text.startswith("(*", i):
        depth += 1
        i += 2
    elif text.startswith("*)", i) and depth:
        depth -= 1
        i += 2
    else:
        if not depth:
            out.append(text[i])
        i += 1
text = "".join(out)
bad = []
depth = 0
for sentence in re.split(r"\.\s", text):
    s = sentence.strip()
    if re.match(r"Section\b", s):
        depth += 1
    elif re.match(r"End\b", s) and depth:
        depth -= 1
    if re.search(r"\b(Admitted|admit|Axiom|Axioms|Parameter|Parameters|Conjecture|Conjectures)\b", s):
        bad.append(s[:80])
    if re.search(r"Unset Guard|bypass_check|Admit Obligations|Unset Positivity|Unset Universe", s):
        bad.append(s[:80])
    if depth == 0 and re.match(r"(Variable|Variables|Hypothesis|Hypotheses)\b", s):
        bad.append("outside a section: " + s[:80])
if bad:
    print(sys.argv[1], bad)
    sys.exit(1)
