#!/bin/bash
# tools/full_pass.sh [seed] [tier] : run every registered check once against /repo and validate manifest + evidence.
cd "$(dirname "$0")/.."
seed=${1:-0}; tier=${2:-quick}
mkdir -p work/full_pass
fail=0
for i in $(seq -w 1 20); do
  p=C$i
  VERIF_SEED=$seed ./check $p --tier $tier > work/full_pass/$p.log 2>&1
  rc=$?
  line=$(grep "^\[$p\] \(PASS\|FAIL\)" work/full_pass/$p.log | tail -1)
  viol=$(grep -c "^VIOLATION" work/full_pass/$p.log)
  echo "$p rc=$rc violations=$viol $line"
  [ $rc -ne 0 ] && fail=1
done
python3-vt - <<'PY'
import json, jsonschema, glob
S = json.load(open('/root/.vp/EVIDENCE.schema.json'))
bad = 0
for f in sorted(glob.glob('evidence/*.json')):
    try:
        jsonschema.validate(json.load(open(f)), S)
    except Exception as e:
        bad += 1; print(f, 'BAD', str(e)[:200])
jsonschema.validate(json.load(open('MANIFEST.json')), json.load(open('/root/.vp/MANIFEST.schema.json')))
print('schemas:', 'ok' if not bad else f'{bad} bad evidence files')
PY
exit $fail
