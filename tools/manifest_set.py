"""tools/manifest_set.py <entry.json> : insert or replace one check entry in MANIFEST.json (keyed by property_id),
remove the property from not_applicable, keep engines' serves_properties current, validate against the schema."""
import json, sys
m = json.load(open("MANIFEST.json"))
e = json.load(open(sys.argv[1]))
for k in ("quick_cmd", "thorough_cmd", "evidence_file", "replay_cmd_template", "engine"):
    e.setdefault(k, {"quick_cmd": f"./check {e['property_id']} --tier quick", "thorough_cmd": f"./check {e['property_id']} --tier thorough",
                     "evidence_file": f"evidence/{e['property_id']}.json", "replay_cmd_template": f"./check {e['property_id']} --replay {{path}}",
                     "engine": "coq"}[k])
m["checks"] = sorted([c for c in m["checks"] if c["property_id"] != e["property_id"]] + [e], key=lambda c: c["property_id"])
m["not_applicable"] = [n for n in m.get("not_applicable", []) if n["property_id"] != e["property_id"]]
for eng in m.get("engines", []):
    eng["serves_properties"] = sorted(c["property_id"] for c in m["checks"])
json.dump(m, open("MANIFEST.json", "w"), indent=1)
try:
    import jsonschema
    jsonschema.validate(m, json.load(open("/root/.vp/MANIFEST.schema.json")))
    print("manifest ok:", [c["property_id"] for c in m["checks"]])
except ImportError:
    print("jsonschema missing; not validated")
