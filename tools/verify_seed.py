"""tools/verify_seed.py <patch.diff> <demo.py>
Confirm a seeded change independently: in a fresh scratch worktree of /repo's HEAD the patch applies, the repository's test
suite gives the baseline result (132 passed, 2 failed), the demonstration FAILS with the change and PASSES on /repo.
Prints a JSON summary; exit 0 iff all of that holds."""
from __future__ import annotations

import json
import os
import re
import subprocess
import sys
import tempfile
from pathlib import Path


def sh(cmd, **kw):
    return subprocess.run(cmd, stdout=subprocess.PIPE, stderr=subprocess.STDOUT, text=True, **kw)


def run_demo(tree: str, demo: str):
    env = dict(os.environ, PYTHONPATH=f"{tree}/src:{tree}", PYTHONHASHSEED="0")
    r = sh(["timeout", "300", "/venv/bin/python", demo], env=env, cwd="/tmp")
    return r.returncode, r.stdout[-600:]


def main():
    patch, demo = sys.argv[1], sys.argv[2]
    wt = Path(tempfile.mkdtemp(prefix="seedver_", dir="/tmp"))
    wt.rmdir()
    assert sh(["git", "-C", "/repo", "worktree", "add", "-q", str(wt), "HEAD"]).returncode == 0
    out = {}
    try:
        r = sh(["git", "-C", str(wt), "apply", patch])
        out["applies"] = r.returncode == 0
        if not out["applies"]:
            out["apply_error"] = r.stdout[-400:]
            print(json.dumps(out, indent=1))
            return 1
        env = dict(os.environ, PYTHONPATH=f"{wt}/src:{wt}")
        r = sh(["timeout", "1200", "/venv/bin/python", "-m", "pytest", "-q", "-p", "no:cacheprovider", "--timeout=900"], cwd=str(wt), env=env)
        m = re.search(r"(\d+) failed, (\d+) passed", r.stdout)
        out["tests"] = m.group(0) if m else r.stdout[-300:]
        failed = sorted(set(re.findall(r"FAILED (test\S+)", r.stdout)))
        out["failed"] = failed
        out["tests_baseline"] = bool(m) and m.group(2) == "132" and all("test_rendering" in f for f in failed)
        rc_mut, o_mut = run_demo(str(wt), demo)
        rc_clean, o_clean = run_demo("/repo", demo)
        out["demo_with_change"] = {"exit": rc_mut, "tail": o_mut[-300:]}
        out["demo_without_change"] = {"exit": rc_clean, "tail": o_clean[-200:]}
        out["demo_discriminates"] = rc_mut != 0 and rc_clean == 0
    finally:
        sh(["git", "-C", "/repo", "worktree", "remove", "--force", str(wt)])
    print(json.dumps(out, indent=1))
    return 0 if out.get("tests_baseline") and out.get("demo_discriminates") else 1


if __name__ == "__main__":
    sys.exit(main())
