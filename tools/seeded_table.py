"""Print the markdown table of seeded changes (seeded/*/meta.json + result.json) for DESIGN.md section 0.5."""
import json, re
from pathlib import Path
rows = []
for d in sorted(Path("seeded").iterdir()):
    if not (d / "meta.json").exists():
        continue
    meta = json.loads((d / "meta.json").read_text())
    res = json.loads((d / "result.json").read_text()) if (d / "result.json").exists() else {}
    what = meta.get("summary", "")
    if not what:
        notes = (d / "notes.md").read_text() if (d / "notes.md").exists() else ""
        what = ""
    cells = []
    for p, r in res.items():
        conc = sum(1 for v in r.get("violations", []) if "no-failing-input-found" not in v)
        if r.get("exit") == 1 and r.get("violations"):
            cells.append(f"{p}: caught ({'concrete' if conc else 'obligation'})")
        elif r.get("exit") == 0:
            cells.append(f"{p}: missed")
        else:
            cells.append(f"{p}: error")
    status = "; ".join(cells)
    if meta.get("superseded"):
        status = "superseded (patch no longer applies: " + meta["superseded"].split(";")[0] + ")"
    elif meta.get("rebased"):
        status += " (patch re-applied on " + str((meta["rebased"].get("on") or meta.get("base_commit", "?")) if isinstance(meta["rebased"], dict) else meta.get("base_commit", "?")) + ")"
    if meta.get("inert"):
        status += " — " + meta["inert"]
    if meta.get("inert_since"):
        status += " — inert since " + str(meta["inert_since"])
    rows.append((d.name, meta.get("summary", "see notes.md"), meta.get("needs", "see notes.md"), status))
print("| seeded change | what it changes | needs, to manifest | checks |")
print("|---|---|---|---|")
for r in rows:
    print("| " + " | ".join(x.replace("|", "/") for x in r) + " |")
