"""Regenerate the seeded-changes table inside DESIGN.md (between the SEEDED_TABLE markers) from seeded/*/result.json."""
import subprocess
d = open("DESIGN.md").read()
table = subprocess.run(["python3", "tools/seeded_table.py"], stdout=subprocess.PIPE, text=True).stdout
b, e = "<!-- SEEDED_TABLE_BEGIN -->\n", "<!-- SEEDED_TABLE_END -->\n"
i, j = d.index(b) + len(b), d.index(e)
open("DESIGN.md", "w").write(d[:i] + table + d[j:])
print("refreshed")
