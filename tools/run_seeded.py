"""tools/run_seeded.py <seeded dir> [--props C01,C02] [--tier quick]

Run the registered checks against a seeded property-breaking change WITHOUT touching /repo's working tree:
a scratch worktree of /repo's HEAD is created under /tmp, the patch is applied there, the checks are run with
KRROOD_REPO pointing at it, and the worktree is removed again.  Prints one line per check and writes
<seeded dir>/result.json (exit status, VIOLATION lines, replay kinds).  Evidence files written by these runs describe
the mutated tree: re-run the clean check before committing evidence.
"""
from __future__ import annotations

import json
import os
import subprocess
import sys
import tempfile
import time
from pathlib import Path

VERIF = Path(__file__).resolve().parent.parent


def sh(cmd, **kw):
    return subprocess.run(cmd, stdout=subprocess.PIPE, stderr=subprocess.STDOUT, text=True, **kw)


def main():
    d = Path(sys.argv[1]).resolve()
    meta = json.loads((d / "meta.json").read_text())
    props = meta.get("checks") or [meta["property"]]
    tier = "quick"
    for i, a in enumerate(sys.argv):
        if a == "--props":
            props = sys.argv[i + 1].split(",")
        if a == "--tier":
            tier = sys.argv[i + 1]
    wt = Path(tempfile.mkdtemp(prefix="seedrun_", dir="/tmp"))
    wt.rmdir()
    r = sh(["git", "-C", "/repo", "worktree", "add", "-q", str(wt), "HEAD"])
    assert r.returncode == 0, r.stdout
    results = {}
    try:
        r = sh(["git", "-C", str(wt), "apply", str(d / "patch.diff")])
        if r.returncode != 0:
            print("PATCH DOES NOT APPLY:", r.stdout)
            return 2
        for p in props:
            t0 = time.time()
            env = dict(os.environ, KRROOD_REPO=str(wt), VERIF_SEED=os.environ.get("VERIF_SEED", "0"))
            r = sh(["./check", p, "--tier", tier], cwd=str(VERIF), env=env)
            viol = [l for l in r.stdout.splitlines() if l.startswith("VIOLATION")]
            kinds = []
            for l in viol:
                try:
                    path = l.split("replay=")[1].split()[0]
                    kinds.append(json.load(open(path)).get("kind", "?"))
                except Exception:  # noqa
                    kinds.append("?")
            obl = [l for l in r.stdout.splitlines() if "OBLIGATION FAILED" in l]
            results[p] = {"exit": r.returncode, "violations": viol, "kinds": kinds, "obligations_failed": [o[:300] for o in obl],
                          "no_failing_input_found": any("no-failing-input-found" in l for l in viol),
                          "wall_s": round(time.time() - t0, 1)}
            status = "DETECTED" if r.returncode == 1 and viol else ("MISSED" if r.returncode == 0 else f"ERROR({r.returncode})")
            concrete = sum(1 for l in viol if "no-failing-input-found" not in l)
            print(f"{d.name} {p}: {status} violations={len(viol)} concrete={concrete} obligations_failed={len(obl)} wall={results[p]['wall_s']}s")
            if r.returncode not in (0, 1):
                print(r.stdout[-1500:])
    finally:
        sh(["git", "-C", "/repo", "worktree", "remove", "--force", str(wt)])
    (d / "result.json").write_text(json.dumps(results, indent=1))
    return 0


if __name__ == "__main__":
    sys.exit(main())
