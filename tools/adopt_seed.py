"""tools/adopt_seed.py <ID> <A|B> : verify a seeded change delivered in /tmp/seed_<ID>_out and, if it is confirmed
(tests at baseline, demo fails with / passes without), keep it as /verif/seeded/<ID>-<variant>/ and run the check(s) on it."""
import json, shutil, subprocess, sys
from pathlib import Path
pid, var = sys.argv[1], sys.argv[2]
args = sys.argv[3:]
src = Path(f"/tmp/seed_{pid}_out")
name = var
if "--src" in args:
    src = Path(args[args.index("--src") + 1]); del args[args.index("--src"):args.index("--src") + 2]
if "--as" in args:
    name = args[args.index("--as") + 1]; del args[args.index("--as"):args.index("--as") + 2]
checks = args[0].split(",") if args else [pid]
patch, demo = src / f"patch_{var}.diff", src / f"demo_{var}.py"
r = subprocess.run([sys.executable, "tools/verify_seed.py", str(patch), str(demo)], stdout=subprocess.PIPE, text=True)
print(r.stdout[-1500:])
ver = json.loads(r.stdout[r.stdout.index("{"):]) if "{" in r.stdout else {}
if r.returncode != 0:
    print(f"NOT CONFIRMED {pid}-{name}")
    sys.exit(1)
d = Path("seeded") / f"{pid}-{name}"
d.mkdir(parents=True, exist_ok=True)
shutil.copy(patch, d / "patch.diff")
shutil.copy(demo, d / "demo.py")
notes = (src / "notes.md").read_text() if (src / "notes.md").exists() else ""
(d / "notes.md").write_text(notes)
meta = {"property": pid, "variant": name, "checks": checks, "source": "independent sub-agent given only the property text and a scratch worktree",
        "base_commit": subprocess.run(["git", "-C", "/repo", "rev-parse", "--short", "HEAD"], stdout=subprocess.PIPE, text=True).stdout.strip(),
        "confirmed": {"patch_applies": ver.get("applies"), "repo_tests_with_change": ver.get("tests"), "failed_tests": ver.get("failed"),
                      "demo_with_change_exit": ver.get("demo_with_change", {}).get("exit"),
                      "demo_without_change_exit": ver.get("demo_without_change", {}).get("exit")},
        "ran": ["tools/verify_seed.py (fresh worktree: git apply, full pytest, demo with and without the change)",
                "tools/run_seeded.py (checks with KRROOD_REPO pointing at a scratch worktree carrying the patch)"],
        "needs_to_manifest": "see notes.md"}
(d / "meta.json").write_text(json.dumps(meta, indent=1))
r = subprocess.run([sys.executable, "tools/run_seeded.py", str(d)], stdout=subprocess.PIPE, text=True)
print(r.stdout[-1500:])
